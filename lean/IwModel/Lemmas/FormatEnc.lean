import IwModel.Model.FormatEnc
import IwModel.Lemmas.Vnum
/-! Algebra of `peek`/`poke`/`pokes` and of the little-endian and vnum field codecs. -/
namespace IwModel.FormatEnc
open IwModel

theorem length_peek (b : Bytes) (o l : Nat) (h : o + l ≤ b.length) : (peek b o l).length = l := by
  simp [peek]; omega

theorem length_poke (b x : Bytes) (off : Nat) (h : off + x.length ≤ b.length) :
    (poke b off x).length = b.length := by
  simp [poke]; omega

theorem peek_poke_self (b x : Bytes) (off : Nat) (h : off + x.length ≤ b.length) :
    peek (poke b off x) off x.length = x := by
  have h1 : (b.take off).length = off := by simp; omega
  simp only [peek, poke, List.append_assoc]
  rw [List.drop_append_of_le_length (by omega)]
  rw [List.drop_of_length_le (by omega), List.nil_append]
  simp

theorem peek_poke_disj (b x : Bytes) (off o l : Nat) (h : off + x.length ≤ b.length)
    (hd : o + l ≤ off ∨ off + x.length ≤ o) : peek (poke b off x) o l = peek b o l := by
  apply List.ext_getElem?
  intro i
  simp only [peek, poke, List.getElem?_take, List.getElem?_drop, List.getElem?_append, List.length_take, List.length_append]
  by_cases hi : i < l
  · simp only [hi, if_true]
    rcases hd with hd | hd
    · have hm : min off b.length = off := by omega
      have : o + i < off := by omega
      simp [hm, this]; omega
    · have hm : min off b.length = off := by omega
      have h1 : ¬ (o + i < off + x.length) := by omega
      have h2 : ¬ (o + i < off) := by omega
      simp only [hm, h1, h2, if_false]
      congr 1; omega
  · simp [hi]

/-- all writes fall inside `n` bytes and do not overlap each other -/
def WfWrites (n : Nat) (ws : List (Nat × Bytes)) : Prop :=
  (∀ w ∈ ws, w.1 + w.2.length ≤ n) ∧
  ws.Pairwise fun a b => a.1 + a.2.length ≤ b.1 ∨ b.1 + b.2.length ≤ a.1

theorem length_pokes (b : Bytes) (ws : List (Nat × Bytes)) (h : ∀ w ∈ ws, w.1 + w.2.length ≤ b.length) :
    (pokes b ws).length = b.length := by
  induction ws generalizing b with
  | nil => rfl
  | cons w ws ih =>
    have hw := h w (by simp)
    simp only [pokes]
    rw [ih, length_poke _ _ _ hw]
    intro w' hw'
    rw [length_poke _ _ _ hw]
    exact h w' (by simp [hw'])

/-- bytes no write touches keep their value -/
theorem peek_pokes_disj (b : Bytes) (ws : List (Nat × Bytes)) (o l : Nat)
    (h : ∀ w ∈ ws, w.1 + w.2.length ≤ b.length)
    (hd : ∀ w ∈ ws, o + l ≤ w.1 ∨ w.1 + w.2.length ≤ o) : peek (pokes b ws) o l = peek b o l := by
  induction ws generalizing b with
  | nil => rfl
  | cons w ws ih =>
    have hw := h w (by simp)
    simp only [pokes]
    rw [ih, peek_poke_disj _ _ _ _ _ hw (hd w (by simp))]
    · intro w' hw'
      rw [length_poke _ _ _ hw]
      exact h w' (by simp [hw'])
    · intro w' hw'
      exact hd w' (by simp [hw'])

/-- every write of a well-formed write list can be read back -/
theorem peek_pokes_mem (b : Bytes) (ws : List (Nat × Bytes)) (h : WfWrites b.length ws)
    (w : Nat × Bytes) (hw : w ∈ ws) : peek (pokes b ws) w.1 w.2.length = w.2 := by
  induction ws generalizing b with
  | nil => simp at hw
  | cons w0 ws ih =>
    obtain ⟨hin, hp⟩ := h
    have hw0 := hin w0 (by simp)
    rw [List.pairwise_cons] at hp
    have hin' : ∀ w' ∈ ws, w'.1 + w'.2.length ≤ (poke b w0.1 w0.2).length := by
      intro w' hw'
      rw [length_poke _ _ _ hw0]
      exact hin w' (by simp [hw'])
    simp only [pokes]
    rcases List.mem_cons.1 hw with rfl | hw'
    · rw [peek_pokes_disj _ _ _ _ hin', peek_poke_self _ _ _ hw0]
      intro w' hw'
      have := hp.1 w' hw'
      omega
    · exact ih _ ⟨hin', hp.2⟩ hw'

/-! ### little-endian fields -/

@[simp] theorem length_leEnc (w v : Nat) : (leEnc w v).length = w := by
  induction w generalizing v with
  | zero => rfl
  | succ w ih => simp [leEnc, ih]

theorem leDec_leEnc (w v : Nat) (h : v < 256 ^ w) : leDec (leEnc w v) = v := by
  induction w generalizing v with
  | zero => simp at h; simp [leEnc, leDec, h]
  | succ w ih =>
    have : v / 256 < 256 ^ w := by
      rw [Nat.div_lt_iff_lt_mul (by decide)]; rw [Nat.pow_succ] at h; exact h
    simp only [leEnc, leDec, ih _ this]
    omega

theorem leDec_leEnc2 (v : Nat) (h : v < 2 ^ 16) : leDec (leEnc 2 v) = v := leDec_leEnc 2 v (by omega)
theorem leDec_leEnc4 (v : Nat) (h : v < 2 ^ 32) : leDec (leEnc 4 v) = v := leDec_leEnc 4 v (by omega)
theorem leDec_leEnc8 (v : Nat) (h : v < 2 ^ 64) : leDec (leEnc 8 v) = v := leDec_leEnc 8 v (by omega)

theorem leEnc_wf (w v : Nat) : Bytes.wf (leEnc w v) := by
  induction w generalizing v with
  | zero => intro b hb; simp [leEnc] at hb
  | succ w ih =>
    intro b hb
    simp only [leEnc, List.mem_cons] at hb
    rcases hb with rfl | hb
    · omega
    · exact ih _ b hb

@[simp] theorem leDec_single (x : Nat) : leDec [x] = x := by simp [leDec]

theorem length_encU4s (xs : List Nat) : (encU4s xs).length = 4 * xs.length := by
  induction xs with
  | nil => rfl
  | cons x xs ih => simp only [encU4s, List.flatMap_cons, List.length_append, length_leEnc, List.length_cons] at *; omega

theorem decU4s_encU4s (xs : List Nat) (rest : Bytes) (h : ∀ x ∈ xs, x < 2 ^ 32) :
    decU4s xs.length (encU4s xs ++ rest) = xs := by
  induction xs with
  | nil => rfl
  | cons x xs ih =>
    have hx : x < 256 ^ 4 := h x (by simp)
    simp only [encU4s, List.flatMap_cons, List.length_cons, decU4s, List.append_assoc]
    rw [List.take_append_of_le_length (by simp), List.take_of_length_le (by simp), leDec_leEnc _ _ hx]
    rw [List.drop_append_of_le_length (by simp), List.drop_of_length_le (by simp), List.nil_append]
    congr 1
    exact ih fun y hy => h y (by simp [hy])

/-! ### encodings are byte strings -/

theorem wf_append {a b : Bytes} (ha : Bytes.wf a) (hb : Bytes.wf b) : Bytes.wf (a ++ b) := by
  intro x hx
  rcases List.mem_append.1 hx with h | h
  · exact ha x h
  · exact hb x h

theorem wf_zeros (n : Nat) : Bytes.wf (zeros n) := by
  intro x hx
  simp [zeros] at hx
  omega

theorem wf_poke (b x : Bytes) (off : Nat) (hb : Bytes.wf b) (hx : Bytes.wf x) : Bytes.wf (poke b off x) := by
  intro y hy
  simp only [poke, List.mem_append] at hy
  rcases hy with (hy | hy) | hy
  · exact hb y (List.mem_of_mem_take hy)
  · exact hx y hy
  · exact hb y (List.mem_of_mem_drop hy)

theorem wf_pokes (b : Bytes) (ws : List (Nat × Bytes)) (hb : Bytes.wf b) (hw : ∀ w ∈ ws, Bytes.wf w.2) :
    Bytes.wf (pokes b ws) := by
  induction ws generalizing b with
  | nil => exact hb
  | cons w ws ih =>
    exact ih _ (wf_poke _ _ _ hb (hw w (by simp))) fun w' hw' => hw w' (by simp [hw'])

theorem wf_single (x : Nat) (h : x < 256) : Bytes.wf [x] := by
  intro y hy; simp at hy; omega

theorem encU4s_wf (xs : List Nat) : Bytes.wf (encU4s xs) := by
  intro y hy
  simp only [encU4s, List.mem_flatMap] at hy
  obtain ⟨x, _, hx⟩ := hy
  exact leEnc_wf 4 x y hx

theorem encSlots_wf (sl : List (Nat × Nat)) : Bytes.wf (encSlots sl) := by
  intro y hy
  simp only [encSlots, List.mem_flatMap, List.mem_append] at hy
  obtain ⟨p, _, hx | hx⟩ := hy
  · exact Vnum.enc_wf _ y hx
  · exact Vnum.enc_wf _ y hx

theorem encKv_wf (k v : Bytes) (hk : Bytes.wf k) (hv : Bytes.wf v) : Bytes.wf (encKv k v) :=
  wf_append (wf_append (Vnum.enc_wf _) hk) hv

/-! ### well-formedness of the records and of their write lists -/

structure WfSblk (s : SblkRec) : Prop where
  flags : s.flags < 256
  lvl : s.lvl < Gen.SLEVELS
  lkl : s.lkl ≤ Gen.PREFIX_KEY_LEN_V2
  pnum : s.pnum ≤ Gen.KVBLK_IDXNUM
  p0 : s.p0 < 2 ^ 32
  kblk : s.kblk < 2 ^ 32
  pi_len : s.piAll.length = Gen.KVBLK_IDXNUM
  pi : Bytes.wf s.piAll
  n_len : s.n.length = s.lvl + 1
  n : ∀ x ∈ s.n, x < 2 ^ 32
  bpos : s.bpos < 256
  lk_len : s.lk.length = s.lkl
  lk : Bytes.wf s.lk

theorem sblkWrites_wf (s : SblkRec) (h : WfSblk s) : WfWrites Gen.SBLK_SZ (sblkWrites s) := by
  have h1 := h.lvl; have h2 := h.lkl; have h3 := h.pi_len; have h4 := h.n_len; have h5 := h.lk_len
  have h6 := length_encU4s s.n
  simp only [Gen.SLEVELS, Gen.PREFIX_KEY_LEN_V2, Gen.KVBLK_IDXNUM] at h1 h2 h3
  constructor
  · intro w hw
    simp only [sblkWrites, List.mem_cons, List.not_mem_nil, or_false] at hw
    rcases hw with rfl | rfl | rfl | rfl | rfl | rfl | rfl | rfl | rfl | rfl <;>
      simp [Gen.SOFF_FLAGS_U1, Gen.SOFF_LVL_U1, Gen.SOFF_LKL_U1, Gen.SOFF_PNUM_U1, Gen.SOFF_P0_U4, Gen.SOFF_KBLK_U4,
        Gen.SOFF_PI0_U1, Gen.SOFF_N0_U4, Gen.SOFF_BPOS_U1_V2, Gen.SOFF_LK_V2, Gen.SBLK_SZ] <;> omega
  · simp only [sblkWrites, List.pairwise_cons, List.mem_cons, List.not_mem_nil, or_false, forall_eq_or_imp, forall_eq,
      List.Pairwise.nil, and_true, false_imp_iff, implies_true, Gen.SOFF_FLAGS_U1, Gen.SOFF_LVL_U1, Gen.SOFF_LKL_U1, Gen.SOFF_PNUM_U1, Gen.SOFF_P0_U4, Gen.SOFF_KBLK_U4,
        Gen.SOFF_PI0_U1, Gen.SOFF_N0_U4, Gen.SOFF_BPOS_U1_V2, Gen.SOFF_LK_V2, List.length_cons, List.length_nil, length_leEnc]
    omega

theorem vnumAt_enc (b pre rest : Bytes) (n : Nat) (hb : b = pre ++ (Vnum.enc n ++ rest))
    (hn : (Vnum.enc n).length ≤ Gen.IW_VNUMBUFSZ) : vnumAt b pre.length = some (n, (Vnum.enc n).length) := by
  subst hb
  simp only [vnumAt, peek, List.drop_left', Vnum.dec]
  rw [List.take_append, List.take_of_length_le hn, Vnum.decAux_enc]
  simp

theorem enc_length_le_buf (n : Nat) (h : n < 2 ^ 63) : (Vnum.enc n).length ≤ Gen.IW_VNUMBUFSZ := by
  have := Vnum.enc_length_le 8 n (by omega)
  simp only [Gen.IW_VNUMBUFSZ]; omega

/-- slots whose numbers fit the C types (`off_t`, `uint32_t` written through `int32_t`) -/
def WfSlots (sl : List (Nat × Nat)) : Prop := ∀ p ∈ sl, p.1 < 2 ^ 63 ∧ p.2 < 2 ^ 31

theorem decSlotsE_enc (sl : List (Nat × Nat)) (hs : WfSlots sl) (b pre rest : Bytes) (acc : List (Nat × Nat))
    (hb : b = pre ++ (encSlots sl ++ rest)) :
    decSlotsE b sl.length pre.length acc = .ok (acc.reverse ++ sl, pre.length + (encSlots sl).length) := by
  induction sl generalizing pre acc with
  | nil => simp [decSlotsE, encSlots]
  | cons p sl ih =>
    obtain ⟨off, len⟩ := p
    have hp := hs (off, len) (by simp)
    have h1 := vnumAt_enc b pre (Vnum.enc len ++ (encSlots sl ++ rest)) off
      (by rw [hb]; simp [encSlots, List.append_assoc]) (enc_length_le_buf _ hp.1)
    have h2 := vnumAt_enc b (pre ++ Vnum.enc off) (encSlots sl ++ rest) len
      (by rw [hb]; simp [encSlots, List.append_assoc]) (enc_length_le_buf _ (by have := hp.2; omega))
    have h3 := ih (fun q hq => hs q (by simp [hq])) (pre ++ Vnum.enc off ++ Vnum.enc len) ((off, len) :: acc)
      (by rw [hb]; simp [encSlots, List.append_assoc])
    simp only [List.length_append] at h2 h3
    simp only [decSlotsE, List.length_cons, h1, h2, h3]
    simp [encSlots, List.length_append]
    omega

structure WfKvIndex (k : KvIndex) : Prop where
  szpow : k.szpow < 256
  idxsz : k.idxsz = (encSlots k.slots).length
  idxsz_lt : k.idxsz < 2 ^ 16
  slots_len : k.slots.length = Gen.KVBLK_IDXNUM
  slots : WfSlots k.slots

theorem encSlots_length_le (sl : List (Nat × Nat)) (hs : WfSlots sl) :
    (encSlots sl).length ≤ 2 * Gen.IW_VNUMBUFSZ * sl.length := by
  induction sl with
  | nil => simp [encSlots]
  | cons p sl ih =>
    have hp := hs p (by simp)
    have h1 := enc_length_le_buf p.1 hp.1
    have h2 := enc_length_le_buf p.2 (by have := hp.2; omega)
    have := ih fun q hq => hs q (by simp [hq])
    simp only [encSlots, List.flatMap_cons, List.length_append, List.length_cons] at *
    simp only [Gen.IW_VNUMBUFSZ] at *
    omega

/-- the index `_kvblk_sync_mm` writes for 32 slots with numbers in range is well-formed -/
theorem wfKvIndex_ofSlots (szpow : Nat) (sl : List (Nat × Nat)) (h1 : szpow < 256)
    (h2 : sl.length = Gen.KVBLK_IDXNUM) (h3 : WfSlots sl) : WfKvIndex (KvIndex.ofSlots szpow sl) := by
  refine ⟨h1, rfl, ?_, h2, h3⟩
  have := encSlots_length_le sl h3
  simp only [KvIndex.ofSlots, h2, Gen.IW_VNUMBUFSZ, Gen.KVBLK_IDXNUM] at *
  omega

structure WfDbHdr (d : DbHdr) : Prop where
  flags : d.flags < 256
  id : d.id < 2 ^ 32
  next : d.next < 2 ^ 32
  p0 : d.p0 < 2 ^ 32
  n_len : d.n.length = Gen.SLEVELS
  n : ∀ x ∈ d.n, x < 2 ^ 32
  c_len : d.c.length = Gen.SLEVELS
  c : ∀ x ∈ d.c, x < 2 ^ 32
  metaBlk : d.metaBlk < 2 ^ 32
  metaBlkn : d.metaBlkn < 2 ^ 32

theorem dbHdrWrites_wf (d : DbHdr) (h : WfDbHdr d) : WfWrites Gen.DOFF_END (dbHdrWrites d) := by
  have h1 := h.n_len; have h2 := h.c_len
  have h3 := length_encU4s d.n; have h4 := length_encU4s d.c
  simp only [Gen.SLEVELS] at h1 h2
  constructor
  · intro w hw
    simp only [dbHdrWrites, List.mem_cons, List.not_mem_nil, or_false] at hw
    rcases hw with rfl | rfl | rfl | rfl | rfl | rfl | rfl | rfl | rfl <;>
      simp [Gen.DOFF_MAGIC_U4, Gen.DOFF_DBFLG_U1, Gen.DOFF_DBID_U4, Gen.DOFF_NEXTDB_U4, Gen.DOFF_P0_U4, Gen.DOFF_N0_U4,
        Gen.DOFF_C0_U4, Gen.DOFF_METABLK_U4, Gen.DOFF_METABLKN_U4, Gen.DOFF_END] <;> omega
  · simp only [dbHdrWrites, List.pairwise_cons, List.mem_cons, List.not_mem_nil, or_false, forall_eq_or_imp, forall_eq,
      List.Pairwise.nil, and_true, false_imp_iff, implies_true, Gen.DOFF_MAGIC_U4, Gen.DOFF_DBFLG_U1, Gen.DOFF_DBID_U4,
      Gen.DOFF_NEXTDB_U4, Gen.DOFF_P0_U4, Gen.DOFF_N0_U4, Gen.DOFF_C0_U4, Gen.DOFF_METABLK_U4, Gen.DOFF_METABLKN_U4,
      List.length_cons, List.length_nil, length_leEnc]
    omega

structure WfFsmHdr (f : FsmHdr) : Prop where
  bpow : f.bpow < 256
  bmoff : f.bmoff < 2 ^ 64
  bmlen : f.bmlen < 2 ^ 64
  crzsum : f.crzsum < 2 ^ 64
  crznum : f.crznum < 2 ^ 32
  crzvar : f.crzvar < 2 ^ 64
  hdrlen : f.hdrlen < 2 ^ 32

theorem fsmHdrWrites_wf (f : FsmHdr) : WfWrites Gen.IWFSM_CUSTOM_HDR_DATA_OFFSET (fsmHdrWrites f) := by
  constructor
  · intro w hw
    simp only [fsmHdrWrites, List.mem_cons, List.not_mem_nil, or_false] at hw
    rcases hw with rfl | rfl | rfl | rfl | rfl | rfl | rfl | rfl <;>
      simp [FOFF_MAGIC, FOFF_BPOW, FOFF_BMOFF, FOFF_BMLEN, FOFF_CRZSUM, FOFF_CRZNUM, FOFF_CRZVAR, FOFF_RESERVED, FOFF_HDRLEN,
        Gen.IWFSM_CUSTOM_HDR_DATA_OFFSET]
  · simp only [fsmHdrWrites, List.pairwise_cons, List.mem_cons, List.not_mem_nil, or_false, forall_eq_or_imp, forall_eq,
      List.Pairwise.nil, and_true, false_imp_iff, implies_true, FOFF_MAGIC, FOFF_BPOW, FOFF_BMOFF, FOFF_BMLEN, FOFF_CRZSUM,
      FOFF_CRZNUM, FOFF_CRZVAR, FOFF_RESERVED, FOFF_HDRLEN, List.length_cons, List.length_nil, length_leEnc]
    omega

end IwModel.FormatEnc
