import IwModel.Model.FormatEnc
import IwModel.Lemmas.Vnum
/-! Algebra of `peek`/`poke`/`pokes` and of the little-endian and vnum field codecs. -/
namespace IwModel.FormatEnc
open IwModel

theorem length_peek (b : Bytes) (o l : Nat) (h : o + l ≤ b.length) : (peek b o l).length = l := by
  simp [peek]; omega

theorem length_poke (b x : Bytes) (off : Nat) (h : off + x.length ≤ b.length) :
    (poke b off x).length = b.length := by
  simp [poke]; omega

theorem peek_poke_self (b x : Bytes) (off : Nat) (h : off + x.length ≤ b.length) :
    peek (poke b off x) off x.length = x := by
  have h1 : (b.take off).length = off := by simp; omega
  simp only [peek, poke, List.append_assoc]
  rw [List.drop_append_of_le_length (by omega)]
  rw [List.drop_of_length_le (by omega), List.nil_append]
  simp

theorem peek_poke_disj (b x : Bytes) (off o l : Nat) (h : off + x.length ≤ b.length)
    (hd : o + l ≤ off ∨ off + x.length ≤ o) : peek (poke b off x) o l = peek b o l := by
  apply List.ext_getElem?
  intro i
  simp only [peek, poke, List.getElem?_take, List.getElem?_drop, List.getElem?_append, List.length_take, List.length_append]
  by_cases hi : i < l
  · simp only [hi, if_true]
    rcases hd with hd | hd
    · have hm : min off b.length = off := by omega
      have : o + i < off := by omega
      simp [hm, this]; omega
    · have hm : min off b.length = off := by omega
      have h1 : ¬ (o + i < off + x.length) := by omega
      have h2 : ¬ (o + i < off) := by omega
      simp only [hm, h1, h2, if_false]
      congr 1; omega
  · simp [hi]

/-! ### memory windows -/

theorem Mem.slice_add (m : Mem) (off a b : Nat) : m.slice off (a + b) = m.slice off a ++ m.slice (off + a) b := by
  simp only [Mem.slice, List.range_add, List.map_append, List.map_map]
  congr 1
  apply List.map_congr_left
  intro i _
  simp [Nat.add_assoc]

theorem length_slice (m : Mem) (off len : Nat) : (m.slice off len).length = len := by simp [Mem.slice]

theorem slice_ofBytes (b : Bytes) (off len : Nat) (h : off + len ≤ b.length) :
    (Mem.ofBytes b).slice off len = peek b off len := by
  apply List.ext_getElem?
  intro i
  simp only [Mem.slice, Mem.ofBytes, peek, List.getElem?_map, List.getElem?_take, List.getElem?_drop]
  by_cases hi : i < len
  · have : off + i < b.length := by omega
    simp [hi, List.getD, this]
  · simp [hi]

/-- a window that starts inside the file begins with the file bytes -/
theorem slice_ofBytes_prefix (b : Bytes) (off l len : Nat) (h : off + l ≤ b.length) (hl : l ≤ len) :
    ∃ rest, (Mem.ofBytes b).slice off len = peek b off l ++ rest := by
  refine ⟨(Mem.ofBytes b).slice (off + l) (len - l), ?_⟩
  have : len = l + (len - l) := by omega
  rw [this, Mem.slice_add, slice_ofBytes _ _ _ h]
  simp

theorem peek_peek (b : Bytes) (a n o l : Nat) (h : o + l ≤ n) : peek (peek b a n) o l = peek b (a + o) l := by
  apply List.ext_getElem?
  intro i
  simp only [peek, List.getElem?_take, List.getElem?_drop]
  by_cases hi : i < l
  · have : o + i < n := by omega
    simp [hi, this, Nat.add_assoc]
  · simp [hi]

theorem get_ofBytes_of_peek (b : Bytes) (off x : Nat) (h : peek b off 1 = [x]) : (Mem.ofBytes b).get off = x := by
  have : (peek b off 1)[0]? = some x := by rw [h]; rfl
  simp only [peek, List.getElem?_take, List.getElem?_drop] at this
  simp at this
  simp [Mem.ofBytes, List.getD, this]

/-- all writes fall inside `n` bytes and do not overlap each other -/
def WfWrites (n : Nat) (ws : List (Nat × Bytes)) : Prop :=
  (∀ w ∈ ws, w.1 + w.2.length ≤ n) ∧
  ws.Pairwise fun a b => a.1 + a.2.length ≤ b.1 ∨ b.1 + b.2.length ≤ a.1

theorem length_pokes (b : Bytes) (ws : List (Nat × Bytes)) (h : ∀ w ∈ ws, w.1 + w.2.length ≤ b.length) :
    (pokes b ws).length = b.length := by
  induction ws generalizing b with
  | nil => rfl
  | cons w ws ih =>
    have hw := h w (by simp)
    simp only [pokes]
    rw [ih, length_poke _ _ _ hw]
    intro w' hw'
    rw [length_poke _ _ _ hw]
    exact h w' (by simp [hw'])

/-- bytes no write touches keep their value -/
theorem peek_pokes_disj (b : Bytes) (ws : List (Nat × Bytes)) (o l : Nat)
    (h : ∀ w ∈ ws, w.1 + w.2.length ≤ b.length)
    (hd : ∀ w ∈ ws, o + l ≤ w.1 ∨ w.1 + w.2.length ≤ o) : peek (pokes b ws) o l = peek b o l := by
  induction ws generalizing b with
  | nil => rfl
  | cons w ws ih =>
    have hw := h w (by simp)
    simp only [pokes]
    rw [ih, peek_poke_disj _ _ _ _ _ hw (hd w (by simp))]
    · intro w' hw'
      rw [length_poke _ _ _ hw]
      exact h w' (by simp [hw'])
    · intro w' hw'
      exact hd w' (by simp [hw'])

/-- every write of a well-formed write list can be read back -/
theorem peek_pokes_mem (b : Bytes) (ws : List (Nat × Bytes)) (h : WfWrites b.length ws)
    (w : Nat × Bytes) (hw : w ∈ ws) : peek (pokes b ws) w.1 w.2.length = w.2 := by
  induction ws generalizing b with
  | nil => simp at hw
  | cons w0 ws ih =>
    obtain ⟨hin, hp⟩ := h
    have hw0 := hin w0 (by simp)
    rw [List.pairwise_cons] at hp
    have hin' : ∀ w' ∈ ws, w'.1 + w'.2.length ≤ (poke b w0.1 w0.2).length := by
      intro w' hw'
      rw [length_poke _ _ _ hw0]
      exact hin w' (by simp [hw'])
    simp only [pokes]
    rcases List.mem_cons.1 hw with rfl | hw'
    · rw [peek_pokes_disj _ _ _ _ hin', peek_poke_self _ _ _ hw0]
      intro w' hw'
      have := hp.1 w' hw'
      omega
    · exact ih _ ⟨hin', hp.2⟩ hw'

/-! ### little-endian fields -/

@[simp] theorem length_leEnc (w v : Nat) : (leEnc w v).length = w := by
  induction w generalizing v with
  | zero => rfl
  | succ w ih => simp [leEnc, ih]

theorem leDec_leEnc (w v : Nat) (h : v < 256 ^ w) : leDec (leEnc w v) = v := by
  induction w generalizing v with
  | zero => simp at h; simp [leEnc, leDec, h]
  | succ w ih =>
    have : v / 256 < 256 ^ w := by
      rw [Nat.div_lt_iff_lt_mul (by decide)]; rw [Nat.pow_succ] at h; exact h
    simp only [leEnc, leDec, ih _ this]
    omega

theorem leDec_leEnc2 (v : Nat) (h : v < 2 ^ 16) : leDec (leEnc 2 v) = v := leDec_leEnc 2 v (by omega)
theorem leDec_leEnc4 (v : Nat) (h : v < 2 ^ 32) : leDec (leEnc 4 v) = v := leDec_leEnc 4 v (by omega)
theorem leDec_leEnc8 (v : Nat) (h : v < 2 ^ 64) : leDec (leEnc 8 v) = v := leDec_leEnc 8 v (by omega)

theorem leEnc_wf (w v : Nat) : Bytes.wf (leEnc w v) := by
  induction w generalizing v with
  | zero => intro b hb; simp [leEnc] at hb
  | succ w ih =>
    intro b hb
    simp only [leEnc, List.mem_cons] at hb
    rcases hb with rfl | hb
    · omega
    · exact ih _ b hb

@[simp] theorem leDec_single (x : Nat) : leDec [x] = x := by simp [leDec]

theorem length_encU4s (xs : List Nat) : (encU4s xs).length = 4 * xs.length := by
  induction xs with
  | nil => rfl
  | cons x xs ih => simp only [encU4s, List.flatMap_cons, List.length_append, length_leEnc, List.length_cons] at *; omega

theorem decU4s_encU4s (xs : List Nat) (rest : Bytes) (h : ∀ x ∈ xs, x < 2 ^ 32) :
    decU4s xs.length (encU4s xs ++ rest) = xs := by
  induction xs with
  | nil => rfl
  | cons x xs ih =>
    have hx : x < 256 ^ 4 := h x (by simp)
    simp only [encU4s, List.flatMap_cons, List.length_cons, decU4s, List.append_assoc]
    rw [List.take_append_of_le_length (by simp), List.take_of_length_le (by simp), leDec_leEnc _ _ hx]
    rw [List.drop_append_of_le_length (by simp), List.drop_of_length_le (by simp), List.nil_append]
    congr 1
    exact ih fun y hy => h y (by simp [hy])

/-! ### encodings are byte strings -/

theorem wf_append {a b : Bytes} (ha : Bytes.wf a) (hb : Bytes.wf b) : Bytes.wf (a ++ b) := by
  intro x hx
  rcases List.mem_append.1 hx with h | h
  · exact ha x h
  · exact hb x h

theorem wf_zeros (n : Nat) : Bytes.wf (zeros n) := by
  intro x hx
  simp [zeros] at hx
  omega

theorem wf_poke (b x : Bytes) (off : Nat) (hb : Bytes.wf b) (hx : Bytes.wf x) : Bytes.wf (poke b off x) := by
  intro y hy
  simp only [poke, List.mem_append] at hy
  rcases hy with (hy | hy) | hy
  · exact hb y (List.mem_of_mem_take hy)
  · exact hx y hy
  · exact hb y (List.mem_of_mem_drop hy)

theorem wf_pokes (b : Bytes) (ws : List (Nat × Bytes)) (hb : Bytes.wf b) (hw : ∀ w ∈ ws, Bytes.wf w.2) :
    Bytes.wf (pokes b ws) := by
  induction ws generalizing b with
  | nil => exact hb
  | cons w ws ih =>
    exact ih _ (wf_poke _ _ _ hb (hw w (by simp))) fun w' hw' => hw w' (by simp [hw'])

theorem wf_single (x : Nat) (h : x < 256) : Bytes.wf [x] := by
  intro y hy; simp at hy; omega

theorem encU4s_wf (xs : List Nat) : Bytes.wf (encU4s xs) := by
  intro y hy
  simp only [encU4s, List.mem_flatMap] at hy
  obtain ⟨x, _, hx⟩ := hy
  exact leEnc_wf 4 x y hx

theorem encSlots_wf (sl : List (Nat × Nat)) : Bytes.wf (encSlots sl) := by
  intro y hy
  simp only [encSlots, List.mem_flatMap, List.mem_append] at hy
  obtain ⟨p, _, hx | hx⟩ := hy
  · exact Vnum.enc_wf _ y hx
  · exact Vnum.enc_wf _ y hx

theorem encKv_wf (k v : Bytes) (hk : Bytes.wf k) (hv : Bytes.wf v) : Bytes.wf (encKv k v) :=
  wf_append (wf_append (Vnum.enc_wf _) hk) hv

/-! ### well-formedness of the records and of their write lists -/

structure WfSblk (s : SblkRec) : Prop where
  flags : s.flags < 256
  lvl : s.lvl < Gen.SLEVELS
  lkl : s.lkl ≤ Gen.PREFIX_KEY_LEN_V2
  pnum : s.pnum ≤ Gen.KVBLK_IDXNUM
  p0 : s.p0 < 2 ^ 32
  kblk : s.kblk < 2 ^ 32
  pi_len : s.piAll.length = Gen.KVBLK_IDXNUM
  pi : Bytes.wf s.piAll
  n_len : s.n.length = s.lvl + 1
  n : ∀ x ∈ s.n, x < 2 ^ 32
  bpos : s.bpos < 256
  lk_len : s.lk.length = s.lkl
  lk : Bytes.wf s.lk

theorem sblkWrites_wf (s : SblkRec) (h : WfSblk s) : WfWrites Gen.SBLK_SZ (sblkWrites s) := by
  have h1 := h.lvl; have h2 := h.lkl; have h3 := h.pi_len; have h4 := h.n_len; have h5 := h.lk_len
  have h6 := length_encU4s s.n
  simp only [Gen.SLEVELS, Gen.PREFIX_KEY_LEN_V2, Gen.KVBLK_IDXNUM] at h1 h2 h3
  constructor
  · intro w hw
    simp only [sblkWrites, List.mem_cons, List.not_mem_nil, or_false] at hw
    rcases hw with rfl | rfl | rfl | rfl | rfl | rfl | rfl | rfl | rfl | rfl <;>
      simp [Gen.SOFF_FLAGS_U1, Gen.SOFF_LVL_U1, Gen.SOFF_LKL_U1, Gen.SOFF_PNUM_U1, Gen.SOFF_P0_U4, Gen.SOFF_KBLK_U4,
        Gen.SOFF_PI0_U1, Gen.SOFF_N0_U4, Gen.SOFF_BPOS_U1_V2, Gen.SOFF_LK_V2, Gen.SBLK_SZ] <;> omega
  · simp only [sblkWrites, List.pairwise_cons, List.mem_cons, List.not_mem_nil, or_false, forall_eq_or_imp, forall_eq,
      List.Pairwise.nil, and_true, false_imp_iff, implies_true, Gen.SOFF_FLAGS_U1, Gen.SOFF_LVL_U1, Gen.SOFF_LKL_U1, Gen.SOFF_PNUM_U1, Gen.SOFF_P0_U4, Gen.SOFF_KBLK_U4,
        Gen.SOFF_PI0_U1, Gen.SOFF_N0_U4, Gen.SOFF_BPOS_U1_V2, Gen.SOFF_LK_V2, List.length_cons, List.length_nil, length_leEnc]
    omega

/-- a 256-byte window that holds what `_sblk_sync_mm` wrote decodes to the node -/
theorem decSblk_of_reads (w : Bytes) (s : SblkRec) (hlen : w.length = Gen.SBLK_SZ) (h : WfSblk s)
    (rd : ∀ x ∈ sblkWrites s, peek w x.1 x.2.length = x.2) : decSblk w = some s := by
  have f0 := rd (Gen.SOFF_FLAGS_U1, [s.flags]) (by simp [sblkWrites])
  have f1 := rd (Gen.SOFF_LVL_U1, [s.lvl]) (by simp [sblkWrites])
  have f2 := rd (Gen.SOFF_LKL_U1, [s.lkl]) (by simp [sblkWrites])
  have f3 := rd (Gen.SOFF_PNUM_U1, [s.pnum]) (by simp [sblkWrites])
  have f4 := rd (Gen.SOFF_P0_U4, leEnc 4 s.p0) (by simp [sblkWrites])
  have f5 := rd (Gen.SOFF_KBLK_U4, leEnc 4 s.kblk) (by simp [sblkWrites])
  have f6 := rd (Gen.SOFF_PI0_U1, s.piAll) (by simp [sblkWrites])
  have f7 := rd (Gen.SOFF_N0_U4, encU4s s.n) (by simp [sblkWrites])
  have f8 := rd (Gen.SOFF_BPOS_U1_V2, [s.bpos]) (by simp [sblkWrites])
  have f9 := rd (Gen.SOFF_LK_V2, s.lk) (by simp [sblkWrites])
  simp only [List.length_cons, List.length_nil, Nat.zero_add, length_leEnc, h.pi_len, h.lk_len, length_encU4s, h.n_len] at f0 f1 f2 f3 f4 f5 f6 f7 f8 f9
  have hl := h.lvl; have hk := h.lkl; have hp := h.pnum
  have hn := decU4s_encU4s s.n [] h.n
  rw [List.append_nil, h.n_len] at hn
  simp only [decSblk, byte, hlen, f0, f1, f2, f3, f4, f5, f6, f7, f8, f9, leDec_single, Nat.lt_irrefl, if_false,
    leDec_leEnc4 _ h.p0, leDec_leEnc4 _ h.kblk, hn]
  rw [if_neg (by omega)]

theorem vnumAt_enc (b pre rest : Bytes) (n : Nat) (hb : b = pre ++ (Vnum.enc n ++ rest))
    (hn : (Vnum.enc n).length ≤ Gen.IW_VNUMBUFSZ) : vnumAt b pre.length = some (n, (Vnum.enc n).length) := by
  subst hb
  simp only [vnumAt, peek, List.drop_left', Vnum.dec]
  rw [List.take_append, List.take_of_length_le hn, Vnum.decAux_enc]
  simp

theorem enc_length_le_buf (n : Nat) (h : n < 2 ^ 63) : (Vnum.enc n).length ≤ Gen.IW_VNUMBUFSZ := by
  have := Vnum.enc_length_le 8 n (by omega)
  simp only [Gen.IW_VNUMBUFSZ]; omega

/-- slots whose numbers fit the C types (`off_t`, `uint32_t` written through `int32_t`) -/
def WfSlots (sl : List (Nat × Nat)) : Prop := ∀ p ∈ sl, p.1 < 2 ^ 63 ∧ p.2 < 2 ^ 31

theorem decSlotsE_enc (sl : List (Nat × Nat)) (hs : WfSlots sl) (b pre rest : Bytes) (acc : List (Nat × Nat))
    (hb : b = pre ++ (encSlots sl ++ rest)) :
    decSlotsE b sl.length pre.length acc = .ok (acc.reverse ++ sl, pre.length + (encSlots sl).length) := by
  induction sl generalizing pre acc with
  | nil => simp [decSlotsE, encSlots]
  | cons p sl ih =>
    obtain ⟨off, len⟩ := p
    have hp := hs (off, len) (by simp)
    have h1 := vnumAt_enc b pre (Vnum.enc len ++ (encSlots sl ++ rest)) off
      (by rw [hb]; simp [encSlots, List.append_assoc]) (enc_length_le_buf _ hp.1)
    have h2 := vnumAt_enc b (pre ++ Vnum.enc off) (encSlots sl ++ rest) len
      (by rw [hb]; simp [encSlots, List.append_assoc]) (enc_length_le_buf _ (by have := hp.2; omega))
    have h3 := ih (fun q hq => hs q (by simp [hq])) (pre ++ Vnum.enc off ++ Vnum.enc len) ((off, len) :: acc)
      (by rw [hb]; simp [encSlots, List.append_assoc])
    simp only [List.length_append] at h2 h3
    simp only [decSlotsE, List.length_cons, h1, h2, h3]
    simp [encSlots, List.length_append]
    omega

structure WfKvIndex (k : KvIndex) : Prop where
  szpow : k.szpow < 256
  idxsz : k.idxsz = (encSlots k.slots).length
  idxsz_lt : k.idxsz < 2 ^ 16
  slots_len : k.slots.length = Gen.KVBLK_IDXNUM
  slots : WfSlots k.slots

theorem encSlots_length_le (sl : List (Nat × Nat)) (hs : WfSlots sl) :
    (encSlots sl).length ≤ 2 * Gen.IW_VNUMBUFSZ * sl.length := by
  induction sl with
  | nil => simp [encSlots]
  | cons p sl ih =>
    have hp := hs p (by simp)
    have h1 := enc_length_le_buf p.1 hp.1
    have h2 := enc_length_le_buf p.2 (by have := hp.2; omega)
    have := ih fun q hq => hs q (by simp [hq])
    simp only [encSlots, List.flatMap_cons, List.length_append, List.length_cons] at *
    simp only [Gen.IW_VNUMBUFSZ] at *
    omega

/-- the index `_kvblk_sync_mm` writes for 32 slots with numbers in range is well-formed -/
theorem wfKvIndex_ofSlots (szpow : Nat) (sl : List (Nat × Nat)) (h1 : szpow < 256)
    (h2 : sl.length = Gen.KVBLK_IDXNUM) (h3 : WfSlots sl) : WfKvIndex (KvIndex.ofSlots szpow sl) := by
  refine ⟨h1, rfl, ?_, h2, h3⟩
  have := encSlots_length_le sl h3
  simp only [KvIndex.ofSlots, h2, Gen.IW_VNUMBUFSZ, Gen.KVBLK_IDXNUM] at *
  omega

/-- `_kvblk_at_mm` on what `_kvblk_sync_mm` wrote, whatever follows the index -/
theorem decKvIndexE_enc (k : KvIndex) (rest : Bytes) (h : WfKvIndex k) :
    decKvIndexE (encKvIndex k ++ rest) = .ok k := by
  have hd := decSlotsE_enc k.slots h.slots (encKvIndex k ++ rest) ([k.szpow] ++ leEnc 2 k.idxsz) rest []
    (by simp [encKvIndex, List.append_assoc])
  rw [h.slots_len] at hd
  have hpre : ([k.szpow] ++ leEnc 2 k.idxsz).length = Gen.KVBLK_HDRSZ := by simp [Gen.KVBLK_HDRSZ]
  rw [hpre] at hd
  have h0 : peek (encKvIndex k ++ rest) KOFF_SZPOW 1 = [k.szpow] := by simp [peek, encKvIndex, KOFF_SZPOW]
  have h1 : peek (encKvIndex k ++ rest) KOFF_IDXSZ 2 = leEnc 2 k.idxsz := by
    simp only [peek, encKvIndex, KOFF_IDXSZ, List.append_assoc, List.cons_append, List.nil_append, List.drop_succ_cons, List.drop_zero]
    rw [List.take_append_of_le_length (by simp), List.take_of_length_le (by simp)]
  simp only [decKvIndexE, byte, h0, h1, hd, leDec_single, leDec_leEnc2 _ h.idxsz_lt]
  rw [if_neg (by have := h.idxsz; simp; omega)]
  simp


/-- a record read with its slot length, whatever follows it -/
theorem decKvE_enc (k v rest : Bytes) (hk : k.length < 2 ^ 63) :
    decKvE (encKv k v ++ rest) (encKv k v).length = .ok (k, v) := by
  have h1 := vnumAt_enc (encKv k v ++ rest) [] (k ++ v ++ rest) k.length (by simp [encKv, List.append_assoc])
    (enc_length_le_buf _ hk)
  simp only [List.length_nil] at h1
  simp only [decKvE, h1]
  have hl : (encKv k v).length = (Vnum.enc k.length).length + k.length + v.length := by simp [encKv]; omega
  rw [if_neg (by omega)]
  have e1 : peek (encKv k v ++ rest) (Vnum.enc k.length).length k.length = k := by
    simp only [peek, encKv, List.append_assoc]
    rw [List.drop_left', List.take_left'] <;> rfl
  have e2 : peek (encKv k v ++ rest) ((Vnum.enc k.length).length + k.length)
      ((encKv k v).length - (Vnum.enc k.length).length - k.length) = v := by
    have : (encKv k v).length - (Vnum.enc k.length).length - k.length = v.length := by omega
    rw [this]
    simp only [peek, encKv, List.append_assoc]
    rw [← List.length_append, ← List.append_assoc, List.drop_left', List.take_left'] <;> rfl
  simp [e1, e2]


structure WfDbHdr (d : DbHdr) : Prop where
  flags : d.flags < 256
  id : d.id < 2 ^ 32
  next : d.next < 2 ^ 32
  p0 : d.p0 < 2 ^ 32
  n_len : d.n.length = Gen.SLEVELS
  n : ∀ x ∈ d.n, x < 2 ^ 32
  c_len : d.c.length = Gen.SLEVELS
  c : ∀ x ∈ d.c, x < 2 ^ 32
  metaBlk : d.metaBlk < 2 ^ 32
  metaBlkn : d.metaBlkn < 2 ^ 32

theorem dbHdrWrites_wf (d : DbHdr) (h : WfDbHdr d) : WfWrites Gen.DOFF_END (dbHdrWrites d) := by
  have h1 := h.n_len; have h2 := h.c_len
  have h3 := length_encU4s d.n; have h4 := length_encU4s d.c
  simp only [Gen.SLEVELS] at h1 h2
  constructor
  · intro w hw
    simp only [dbHdrWrites, List.mem_cons, List.not_mem_nil, or_false] at hw
    rcases hw with rfl | rfl | rfl | rfl | rfl | rfl | rfl | rfl | rfl <;>
      simp [Gen.DOFF_MAGIC_U4, Gen.DOFF_DBFLG_U1, Gen.DOFF_DBID_U4, Gen.DOFF_NEXTDB_U4, Gen.DOFF_P0_U4, Gen.DOFF_N0_U4,
        Gen.DOFF_C0_U4, Gen.DOFF_METABLK_U4, Gen.DOFF_METABLKN_U4, Gen.DOFF_END] <;> omega
  · simp only [dbHdrWrites, List.pairwise_cons, List.mem_cons, List.not_mem_nil, or_false, forall_eq_or_imp, forall_eq,
      List.Pairwise.nil, and_true, false_imp_iff, implies_true, Gen.DOFF_MAGIC_U4, Gen.DOFF_DBFLG_U1, Gen.DOFF_DBID_U4,
      Gen.DOFF_NEXTDB_U4, Gen.DOFF_P0_U4, Gen.DOFF_N0_U4, Gen.DOFF_C0_U4, Gen.DOFF_METABLK_U4, Gen.DOFF_METABLKN_U4,
      List.length_cons, List.length_nil, length_leEnc]
    omega

/-- `_db_at` on what `_db_save` and the database branch of `_sblk_sync_mm` wrote, over any old content -/
theorem dbhdr_dec_enc_over (old : Bytes) (d : DbHdr) (hold : old.length = Gen.DOFF_END) (h : WfDbHdr d) :
    decDbHdr (encDbHdrOver old d) = some d := by
  have hw := dbHdrWrites_wf d h
  rw [← hold] at hw
  have hlen : (encDbHdrOver old d).length = Gen.DOFF_END := by
    rw [encDbHdrOver, length_pokes _ _ hw.1, hold]
  have rd : ∀ w ∈ dbHdrWrites d, peek (encDbHdrOver old d) w.1 w.2.length = w.2 := peek_pokes_mem old _ hw
  have f0 := rd (Gen.DOFF_MAGIC_U4, leEnc 4 Gen.IWDB_MAGIC) (by simp [dbHdrWrites])
  have f1 := rd (Gen.DOFF_DBFLG_U1, [d.flags]) (by simp [dbHdrWrites])
  have f2 := rd (Gen.DOFF_DBID_U4, leEnc 4 d.id) (by simp [dbHdrWrites])
  have f3 := rd (Gen.DOFF_NEXTDB_U4, leEnc 4 d.next) (by simp [dbHdrWrites])
  have f4 := rd (Gen.DOFF_P0_U4, leEnc 4 d.p0) (by simp [dbHdrWrites])
  have f5 := rd (Gen.DOFF_N0_U4, encU4s d.n) (by simp [dbHdrWrites])
  have f6 := rd (Gen.DOFF_C0_U4, encU4s d.c) (by simp [dbHdrWrites])
  have f7 := rd (Gen.DOFF_METABLK_U4, leEnc 4 d.metaBlk) (by simp [dbHdrWrites])
  have f8 := rd (Gen.DOFF_METABLKN_U4, leEnc 4 d.metaBlkn) (by simp [dbHdrWrites])
  simp only [List.length_cons, List.length_nil, Nat.zero_add, length_leEnc, length_encU4s, h.n_len, h.c_len] at f0 f1 f2 f3 f4 f5 f6 f7 f8
  have hn := decU4s_encU4s d.n [] h.n
  have hc := decU4s_encU4s d.c [] h.c
  rw [List.append_nil, h.n_len] at hn
  rw [List.append_nil, h.c_len] at hc
  have hm : leDec (leEnc 4 Gen.IWDB_MAGIC) = Gen.IWDB_MAGIC := leDec_leEnc4 _ (by decide)
  simp only [decDbHdr, byte, hlen, f0, f1, f2, f3, f4, f5, f6, f7, f8, leDec_single, Nat.lt_irrefl, if_false,
    leDec_leEnc4 _ h.id, leDec_leEnc4 _ h.next, leDec_leEnc4 _ h.p0, leDec_leEnc4 _ h.metaBlk, leDec_leEnc4 _ h.metaBlkn,
    hn, hc, hm, ne_eq, not_true_eq_false]

/-- the field widths of the allocator header add up to the generated header size -/
theorem fsm_layout_total : FOFF_END = Gen.IWFSM_CUSTOM_HDR_DATA_OFFSET := by decide

theorem dbhdr_dec_enc (d : DbHdr) (h : WfDbHdr d) : decDbHdr (encDbHdr d) = some d :=
  dbhdr_dec_enc_over _ d (by simp [zeros]) h

structure WfFsmHdr (f : FsmHdr) : Prop where
  bpow : f.bpow < 256
  bmoff : f.bmoff < 2 ^ 64
  bmlen : f.bmlen < 2 ^ 64
  crzsum : f.crzsum < 2 ^ 64
  crznum : f.crznum < 2 ^ 32
  crzvar : f.crzvar < 2 ^ 64
  hdrlen : f.hdrlen < 2 ^ 32

theorem fsmHdrWrites_wf (f : FsmHdr) : WfWrites Gen.IWFSM_CUSTOM_HDR_DATA_OFFSET (fsmHdrWrites f) := by
  constructor
  · intro w hw
    simp only [fsmHdrWrites, List.mem_cons, List.not_mem_nil, or_false] at hw
    rcases hw with rfl | rfl | rfl | rfl | rfl | rfl | rfl | rfl <;>
      simp [FOFF_MAGIC, FOFF_BPOW, FOFF_BMOFF, FOFF_BMLEN, FOFF_CRZSUM, FOFF_CRZNUM, FOFF_CRZVAR, FOFF_RESERVED, FOFF_HDRLEN,
        Gen.IWFSM_CUSTOM_HDR_DATA_OFFSET]
  · simp only [fsmHdrWrites, List.pairwise_cons, List.mem_cons, List.not_mem_nil, or_false, forall_eq_or_imp, forall_eq,
      List.Pairwise.nil, and_true, false_imp_iff, implies_true, FOFF_MAGIC, FOFF_BPOW, FOFF_BMOFF, FOFF_BMLEN, FOFF_CRZSUM,
      FOFF_CRZNUM, FOFF_CRZVAR, FOFF_RESERVED, FOFF_HDRLEN, List.length_cons, List.length_nil, length_leEnc]
    omega

end IwModel.FormatEnc
