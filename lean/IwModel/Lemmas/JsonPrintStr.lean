import IwModel.Lemmas.JsonStr
import IwModel.Model.JsonPrint
/-! `_jbl_write_json_string`: what is written between the quotes is a valid RFC 8259 spelling of the very bytes of the
string, pure ASCII under the CODEPOINTS flag. -/
namespace IwModel.Json
open IwModel

theorem hexv_hexUp (d : Nat) (h : d < 16) : hexv (hexUp d) = some d := by
  unfold hexUp hexv
  split
  · rw [if_pos (by omega)]; congr 1; omega
  · rw [if_neg (by omega), if_neg (by omega), if_pos (by omega)]; congr 1; omega

theorem hex4_hexUp (v : Nat) (h : v < 65536) :
    hex4 (hexUp (v / 4096 % 16)) (hexUp (v / 256 % 16)) (hexUp (v / 16 % 16)) (hexUp (v % 16)) = some v := by
  unfold hex4
  rw [hexv_hexUp _ (by omega), hexv_hexUp _ (by omega), hexv_hexUp _ (by omega), hexv_hexUp _ (by omega)]
  simp only [Option.some.injEq]
  omega

theorem hexUp_ascii (d : Nat) (h : d < 16) : hexUp d < 128 := by unfold hexUp; split <;> omega

/-- the spelling written for `\uXXXX` -/
def u4Spell (v : Nat) : Spell := .u4 (hexUp (v / 4096 % 16)) (hexUp (v / 256 % 16)) (hexUp (v / 16 % 16)) (hexUp (v % 16))

theorem u4Spell_text (v : Nat) : (u4Spell v).text = u4 v := rfl

theorem u4_ascii (v : Nat) : ∀ b ∈ u4 v, b < 128 := by
  intro b hb
  simp only [u4, List.mem_cons, List.mem_nil_iff, or_false] at hb
  rcases hb with rfl | rfl | rfl | rfl | rfl | rfl
  · omega
  · omega
  all_goals exact hexUp_ascii _ (by omega)

def pairSpell (hi lo : Nat) : Spell :=
  .pair (hexUp (hi / 4096 % 16)) (hexUp (hi / 256 % 16)) (hexUp (hi / 16 % 16)) (hexUp (hi % 16))
    (hexUp (lo / 4096 % 16)) (hexUp (lo / 256 % 16)) (hexUp (lo / 16 % 16)) (hexUp (lo % 16))

theorem pairSpell_ok (hi lo : Nat) (h1 : hi / 1024 = 54) (h2 : lo / 1024 = 55) :
    (pairSpell hi lo).valid = true ∧ (pairSpell hi lo).value = encodeChar (surrogate hi lo) := by
  have a := hex4_hexUp hi (by omega)
  have b := hex4_hexUp lo (by omega)
  unfold pairSpell
  simp only [Spell.valid, Spell.value, a, b, Option.getD_some, h1, h2, decide_true, Bool.and_self, and_self]

theorem u4Spell_ok (cp : Nat) (h : cp < 65536) (h1 : cp / 1024 ≠ 54) (h2 : cp / 1024 ≠ 55) :
    (u4Spell cp).valid = true ∧ (u4Spell cp).value = encodeChar cp := by
  have a := hex4_hexUp cp h
  unfold u4Spell
  simp only [Spell.valid, Spell.value, a, Option.getD_some, Bool.and_eq_true, bne_iff_ne, ne_eq, decide_eq_true_eq,
    and_true]
  exact ⟨h1, h2⟩

/-- the spelling written for a code point under the CODEPOINTS flag -/
def cpSpell (cp : Nat) : Spell :=
  if cp ≥ 0x10000 then pairSpell (0xD800 + (cp - 0x10000) / 1024 % 1024) (0xDC00 + (cp - 0x10000) % 1024)
  else u4Spell cp

theorem cpSpell_text (cp : Nat) : (cpSpell cp).text = cpEscape cp := by
  unfold cpSpell cpEscape
  split
  · simp [pairSpell, Spell.text, u4]
  · rfl

theorem cpSpell_ok (cp : Nat) (h : codepointValid cp = true) :
    (cpSpell cp).valid = true ∧ (cpSpell cp).value = encodeChar cp := by
  simp only [codepointValid, Bool.and_eq_true, Bool.or_eq_true, decide_eq_true_eq] at h
  unfold cpSpell
  split
  · rename_i hge
    generalize hhi : 0xD800 + (cp - 0x10000) / 1024 % 1024 = hi
    generalize hlo : 0xDC00 + (cp - 0x10000) % 1024 = lo
    have h1 : hi / 1024 = 54 := by omega
    have h2 : lo / 1024 = 55 := by omega
    have h3 : surrogate hi lo = cp := by unfold surrogate; omega
    rw [← h3]
    exact pairSpell_ok hi lo h1 h2
  · exact u4Spell_ok cp (by omega) (by omega) (by omega)

theorem cpEscape_ascii (cp : Nat) : ∀ b ∈ cpEscape cp, b < 128 := by
  unfold cpEscape
  split
  · intro b hb
    simp only [List.mem_append] at hb
    rcases hb with hb | hb <;> exact u4_ascii _ b hb
  · exact u4_ascii cp

/-- side condition on the regenerated `specials` table of the printer: the short escapes written are the
    RFC 8259 ones for the very byte -/
theorem shortEscape_rfc (ch l : Nat) (h : shortEscape ch = some l) : rfcEsc l = some ch ∧ l < 128 ∧ ch ≠ 34 ∧ ch ≠ 92 := by
  unfold shortEscape at h
  split at h
  · rename_i hc
    have hr : ch = 8 ∨ ch = 9 ∨ ch = 10 ∨ ch = 11 ∨ ch = 12 ∨ ch = 13 := by
      have := hc.1; have := hc.2.1
      simp only [Gen.Json.jsonEscLo, Gen.Json.jsonEscHi] at *
      omega
    rcases hr with rfl | rfl | rfl | rfl | rfl | rfl
    all_goals first
      | (simp [Gen.Json.jsonEscExcluded] at hc; done)
      | (simp [Gen.Json.jsonSpecials, Gen.Json.jsonEscLo] at h; subst h; simp [rfcEsc])
  · simp at h

theorem writeBody_nil (cpf : Bool) (skip : Nat) : writeBody cpf skip [] = .ok [] := by
  cases skip <;> rfl

theorem writeBody_skip (cpf : Bool) (k ch : Nat) (rest : Bytes) :
    writeBody cpf (k + 1) (ch :: rest) = writeBody cpf k rest := rfl

theorem writeBody_zero (cpf : Bool) (ch : Nat) (rest : Bytes) :
    writeBody cpf 0 (ch :: rest) =
      if ch = 34 ∨ ch = 92 then (writeBody cpf 0 rest).map ([92, ch] ++ ·)
      else match shortEscape ch with
        | some l => (writeBody cpf 0 rest).map ([92, l] ++ ·)
        | none =>
          if ch < 32 then (writeBody cpf 0 rest).map (u4 ch ++ ·)
          else if isPrint ch then (writeBody cpf 0 rest).map ([ch] ++ ·)
          else if cpf then
            match iterate (ch :: rest) with
            | none => .error .utf8
            | some (cp, sz) => (writeBody cpf (sz - 1) rest).map (cpEscape cp ++ ·)
          else (writeBody cpf 0 rest).map ([ch] ++ ·) := by
  rw [writeBody]; rfl

theorem map_ok {α β ε : Type} (r : Except ε α) (f : α → β) (t : β) (h : r.map f = .ok t) : ∃ t', r = .ok t' ∧ t = f t' := by
  cases r with
  | error e => simp [Except.map] at h
  | ok a => simp only [Except.map, Except.ok.injEq] at h; exact ⟨a, rfl, h.symm⟩

/-- what `_jbl_write_json_string` emits between the quotes is a valid spelling of the very bytes of the string
    (from offset `skip`), and pure ASCII under the CODEPOINTS flag -/
theorem writeBody_spells (cpf : Bool) : ∀ (s : Bytes) (skip : Nat) (t : Bytes), (∀ b ∈ s, b < 256) →
    writeBody cpf skip s = .ok t →
    ∃ ss, strText ss = t ∧ strValid ss = true ∧ strValue ss = s.drop skip ∧ (cpf = true → ∀ b ∈ t, b < 128)
  | [], skip, t, _, h => by
    rw [writeBody_nil] at h
    simp only [Except.ok.injEq] at h
    subst h
    exact ⟨[], rfl, rfl, by simp [strValue], fun _ b hb => by simp at hb⟩
  | ch :: rest, k + 1, t, hw, h => by
    rw [writeBody_skip] at h
    obtain ⟨ss, h1, h2, h3, h4⟩ := writeBody_spells cpf rest k t (fun b hb => hw b (by simp [hb])) h
    exact ⟨ss, h1, h2, by simpa using h3, h4⟩
  | ch :: rest, 0, t, hw, h => by
    have hwr : ∀ b ∈ rest, b < 256 := fun b hb => hw b (by simp [hb])
    have hch : ch < 256 := hw ch (by simp)
    rw [writeBody_zero] at h
    -- a common way to finish: one spelling `sp` in front of the spellings of the rest
    have fin : ∀ (sp : Spell) (t' : Bytes) (k : Nat), writeBody cpf k rest = .ok t' → t = sp.text ++ t' → sp.valid = true →
        sp.value ++ rest.drop k = ch :: rest → (cpf = true → ∀ b ∈ sp.text, b < 128) →
        ∃ ss, strText ss = t ∧ strValid ss = true ∧ strValue ss = (ch :: rest).drop 0 ∧ (cpf = true → ∀ b ∈ t, b < 128) := by
      intro sp t' k hk ht hv hval hasc
      obtain ⟨ss, h1, h2, h3, h4⟩ := writeBody_spells cpf rest k t' hwr hk
      refine ⟨sp :: ss, ?_, ?_, ?_, ?_⟩
      · simp [strText, ht] at h1 ⊢; exact h1
      · simp [strValid, hv] at h2 ⊢; exact h2
      · simp only [strValue, List.flatMap_cons, List.drop_zero] at h3 ⊢; rw [h3]; exact hval
      · intro hc b hb
        rw [ht, List.mem_append] at hb
        rcases hb with hb | hb
        · exact hasc hc b hb
        · exact h4 hc b hb
    split at h
    · rename_i hq
      obtain ⟨t', hk, ht⟩ := map_ok _ _ _ h
      refine fin (.esc ch) t' 0 hk ht ?_ ?_ ?_
      · rcases hq with rfl | rfl <;> rfl
      · rcases hq with rfl | rfl <;> rfl
      · intro _ b hb; simp only [Spell.text, List.mem_cons, List.mem_nil_iff, or_false] at hb; omega
    · rename_i hq
      split at h
      · rename_i l hl
        obtain ⟨t', hk, ht⟩ := map_ok _ _ _ h
        obtain ⟨hr, hl128, -, -⟩ := shortEscape_rfc ch l hl
        refine fin (.esc l) t' 0 hk ht ?_ ?_ ?_
        · simp [Spell.valid, hr]
        · simp [Spell.value, hr]
        · intro _ b hb; simp only [Spell.text, List.mem_cons, List.mem_nil_iff, or_false] at hb; omega
      · split at h
        · rename_i hlt
          obtain ⟨t', hk, ht⟩ := map_ok _ _ _ h
          have ok := u4Spell_ok ch (by omega) (by omega) (by omega)
          refine fin (u4Spell ch) t' 0 hk ht ok.1 ?_ ?_
          · rw [ok.2]; simp [encodeChar, show ch < 128 by omega]
          · intro _; rw [u4Spell_text]; exact u4_ascii ch
        · rename_i hge
          split at h
          · rename_i hp
            simp only [isPrint, Bool.and_eq_true, decide_eq_true_eq] at hp
            obtain ⟨t', hk, ht⟩ := map_ok _ _ _ h
            refine fin (.raw ch) t' 0 hk ht ?_ rfl ?_
            · simp only [Spell.valid, Bool.and_eq_true, decide_eq_true_eq, bne_iff_ne, ne_eq]; omega
            · intro _ b hb; simp only [Spell.text, List.mem_cons, List.mem_nil_iff, or_false] at hb; omega
          · split at h
            · rename_i hcpf
              split at h
              · simp at h
              · rename_i cp sz hit
                obtain ⟨t', hk, ht⟩ := map_ok _ _ _ h
                obtain ⟨henc, hval, hsz1, hsz2⟩ := encode_iterate (ch :: rest) cp sz hw hit
                have ok := cpSpell_ok cp hval
                refine fin (cpSpell cp) t' (sz - 1) hk (by rw [cpSpell_text]; exact ht) ok.1 ?_ ?_
                · rw [ok.2, henc]
                  have : rest.drop (sz - 1) = (ch :: rest).drop sz := by
                    obtain ⟨m, rfl⟩ : ∃ m, sz = m + 1 := ⟨sz - 1, by omega⟩
                    simp
                  rw [this, List.take_append_drop]
                · intro _; rw [cpSpell_text]; exact cpEscape_ascii cp
            · rename_i hcpf
              obtain ⟨t', hk, ht⟩ := map_ok _ _ _ h
              refine fin (.raw ch) t' 0 hk ht ?_ rfl ?_
              · simp only [Spell.valid, Bool.and_eq_true, decide_eq_true_eq, bne_iff_ne, ne_eq]; omega
              · intro hc; exact absurd hc hcpf

end IwModel.Json
