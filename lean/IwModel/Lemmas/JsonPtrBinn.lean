import IwModel.Lemmas.JsonPtrTree
import IwModel.Lemmas.BinnRoundtrip
/-! The binary-form visitor (`_jbl_visit` + `_jbl_get_visitor`) on the writer's output simulates the tree
visitor step by step: same commands, same cursor, results related by `viewOf`. -/
namespace IwModel.Ptr
open IwModel.Gen.Binn IwModel.Binn

def VS.map {α β : Type} (f : α → β) (st : VS α) : VS β := ⟨st.pos1, st.term, st.res.map f⟩

theorem getVisitor_map {α β : Type} (f : α → β) (jp : List Bytes) (lvl : Nat) (eq : Bytes → Bool) (x : α) (st : VS α) :
    getVisitor jp lvl eq (f x) (st.map f) = ((getVisitor jp lvl eq x st).1, (getVisitor jp lvl eq x st).2.map f) := by
  unfold getVisitor
  simp only [VS.map]
  by_cases h1 : (updCursor jp lvl eq st.pos1).fst = true
  · simp [h1]
  · by_cases h2 : jp.length < lvl + 1 <;> simp [h1, h2]

theorem dec_digits (n : Nat) : ∀ b ∈ dec n, 48 ≤ b ∧ b ≤ 57 := by
  fun_induction dec n with
  | case1 n h => intro b hb; simp at hb; omega
  | case2 n h ih =>
    intro b hb
    simp only [List.mem_append, List.mem_singleton] at hb
    rcases hb with hb | hb
    · exact ih b hb
    · omega

theorem dec_cstr (n : Nat) : cstr (dec n) = dec n :=
  cstr_id _ (fun b hb => by have := dec_digits n b hb; omega)

theorem take_length_eq {α : Type} [BEq α] [LawfulBEq α] (a b : List α) :
    (a.length == b.length && a.take a.length == b.take a.length) = (a == b) := by
  by_cases h : a.length = b.length
  · simp [h]
    rw [← h]; simp
  · have h1 : (a.length == b.length) = false := by simpa using h
    have h2 : (a == b) = false := by
      apply beq_false_of_ne
      intro hab; exact h (by rw [hab])
    rw [h1, h2]; rfl

/-- both token tests agree on NUL-free keys (whatever the token) -/
theorem segEq_key (k seg : Bytes) (hk : ∀ b ∈ k, b ≠ 0) :
    segEqBinn (some k) 0 seg = segEqTree (some k) k.length seg := by
  simp only [segEqBinn, segEqTree, strncmpEq, cstr_id k hk]
  rw [take_length_eq]

theorem segEq_idx (i : Nat) (seg : Bytes) : segEqBinn none i seg = segEqTree none i seg := by
  simp only [segEqBinn, segEqTree, strncmpEq, dec_cstr]
  rw [take_length_eq]

theorem getVisitor_terminate_lt {α : Type} (jp : List Bytes) (lvl : Nat) (eq : Bytes → Bool) (x : α) (st : VS α)
    (h : (getVisitor jp lvl eq x st).1 = Cmd.terminate) : lvl < jp.length := by
  unfold getVisitor updCursor at h
  by_cases h1 : lvl < jp.length
  · exact h1
  · by_cases h2 : jp.length < lvl + 1 <;> simp [h1, h2] at h

theorem getVisitor_ok_le {α : Type} (jp : List Bytes) (lvl : Nat) (eq : Bytes → Bool) (x : α) (st : VS α)
    (h : (getVisitor jp lvl eq x st).1 = Cmd.ok) : lvl + 1 ≤ jp.length := by
  unfold getVisitor at h
  by_cases h1 : (updCursor jp lvl eq st.pos1).fst = true
  · simp [h1] at h
  · by_cases h2 : jp.length < lvl + 1
    · simp [h1, h2] at h
    · omega

theorem isContB_viewOf (x : JVal) : isContB (viewOf x) = isContainer x := by
  cases x <;> rfl

theorem viewOf_cont (x : JVal) (bx : Bytes) (hc : isContainer x = true) (he : enc x = some bx) :
    viewOf x = .cont bx := by
  cases x <;> simp [isContainer] at hc <;> simp [viewOf, he]

mutual
  theorem sim_node (jp : List Bytes) (hlen : jp.length ≤ JBL_MAX_NESTING_LEVEL) (c : JVal) (fuel lvl : Nat) (bs : Bytes)
      (st st' : VS JVal) (hw : wf c = true) (he : enc c = some bs) (hs : bs.length + 9 < 2 ^ 31)
      (hd : depth c < fuel) (hc : isContainer c = true) (hl : lvl ≤ jp.length)
      (h : tvNode jp lvl c st = some st') :
      bvCont jp fuel lvl bs (st.map viewOf) = some (st'.map viewOf) := by
    have hn : ¬ lvl > JBL_MAX_NESTING_LEVEL := by omega
    match c with
    | .arr xs =>
      simp only [wf] at hw
      simp only [enc, Option.map_eq_some_iff] at he
      obtain ⟨body, hb, rfl⟩ := he
      have hlen2 := encList_length xs body hb
      have hcl := container_length BINN_LIST xs.length body
      obtain ⟨hh, hi, hty, hcnt⟩ := iterInit_container BINN_LIST xs.length body (Or.inl rfl) (by omega) (by omega)
      match fuel with
      | 0 => simp [depth] at hd
      | f + 1 =>
        simp only [depth] at hd
        simp only [tvNode, if_neg hn] at h
        rw [bvCont]
        simp only [hi, hty, hcnt, if_neg hn, if_true]
        rw [listItems_encList xs body hb (by omega)]
        exact sim_arr jp hlen xs f lvl 0 body st st' hw hb (by omega) (by omega) hl h
    | .obj ms =>
      simp only [wf] at hw
      simp only [enc, Option.map_eq_some_iff] at he
      obtain ⟨body, hb, rfl⟩ := he
      have hlen2 := encMembers_length [] ms body hb
      have hcl := container_length BINN_OBJECT ms.length body
      obtain ⟨hh, hi, hty, hcnt⟩ := iterInit_container BINN_OBJECT ms.length body (Or.inr rfl) (by omega) (by omega)
      match fuel with
      | 0 => simp [depth] at hd
      | f + 1 =>
        simp only [depth] at hd
        simp only [tvNode, if_neg hn] at h
        rw [bvCont]
        have hne : ¬ (BINN_OBJECT = BINN_LIST) := by decide
        simp only [hi, hty, hcnt, if_neg hn, if_neg hne, if_true]
        rw [objItems_encMembers [] ms body hb (by omega)]
        exact sim_obj jp hlen [] ms f lvl body st st' hw hb (by omega) (by omega) hl h
    | .null => simp [isContainer] at hc
    | .bool _ => simp [isContainer] at hc
    | .int _ => simp [isContainer] at hc
    | .f64 _ => simp [isContainer] at hc
    | .str _ => simp [isContainer] at hc
  theorem sim_arr (jp : List Bytes) (hlen : jp.length ≤ JBL_MAX_NESTING_LEVEL) (xs : List JVal) (f lvl i : Nat)
      (body : Bytes) (st st' : VS JVal) (hw : wfList xs = true) (he : encList xs = some body)
      (hs : body.length + 9 < 2 ^ 31) (hd : depthList xs < f) (hl : lvl ≤ jp.length)
      (h : tvArr jp lvl i xs st = some st') :
      bvList jp f lvl i (xs.map viewOf) (st.map viewOf) = some (st'.map viewOf) := by
    match xs with
    | [] =>
      simp only [tvArr, Option.some.injEq] at h; subst h
      simp [bvList]
    | x :: xs =>
      simp only [wfList, Bool.and_eq_true] at hw
      unfold encList at he
      split at he
      · rename_i a b ha hb
        simp only [Option.some.injEq] at he; subst he
        simp only [List.length_append] at hs
        simp only [depthList] at hd
        simp only [List.map_cons]
        rw [bvList]
        by_cases ht : st.term = true
        · simp only [tvArr, ht, if_true, Option.some.injEq] at h; subst h
          simp [VS.map, ht]
        · have ht' : (st.map viewOf).term = false := by simpa [VS.map] using ht
          simp only [tvArr, ht, Bool.false_eq_true, if_false] at h
          simp only [ht', Bool.false_eq_true, if_false]
          have heq : segEqBinn none i = segEqTree none i := funext (segEq_idx i)
          rw [heq, getVisitor_map viewOf]
          generalize hg : getVisitor jp lvl (segEqTree none i) x st = r at h ⊢
          obtain ⟨cmd, st1⟩ := r
          cases cmd with
          | terminate =>
            have hlt := getVisitor_terminate_lt jp lvl _ x st (by rw [hg])
            have hterm : ({ st1 with term := true } : VS JVal).term = true := rfl
            have e1 := tvNode_term jp (lvl + 1) x { st1 with term := true } hterm (by omega)
            have e2 := tvArr_term jp lvl (i + 1) xs { st1 with term := true } hterm
            simp only [show (Cmd.terminate == Cmd.terminate) = true from rfl,
              show (Cmd.terminate != Cmd.skipNested) = true from rfl, Bool.true_and, if_true] at h ⊢
            cases hcx : isContainer x
            · simp only [hcx, Bool.false_eq_true, if_false, e2, Option.some.injEq] at h; subst h; rfl
            · simp only [hcx, if_true, e1, e2, Option.some.injEq] at h; subst h; rfl
          | skipNested =>
            simp only [show (Cmd.skipNested == Cmd.terminate) = false from rfl,
              show (Cmd.skipNested != Cmd.skipNested) = false from rfl, Bool.false_and, Bool.false_eq_true, if_false] at h ⊢
            exact sim_arr jp hlen xs f lvl (i + 1) b st1 st' hw.2 hb (by omega) (by omega) hl h
          | ok =>
            have hle := getVisitor_ok_le jp lvl _ x st (by rw [hg])
            simp only [show (Cmd.ok == Cmd.terminate) = false from rfl,
              show (Cmd.ok != Cmd.skipNested) = true from rfl, Bool.true_and, Bool.false_eq_true, if_false] at h ⊢
            rw [isContB_viewOf]
            cases hcx : isContainer x
            · simp only [hcx, Bool.false_eq_true, if_false] at h ⊢
              exact sim_arr jp hlen xs f lvl (i + 1) b st1 st' hw.2 hb (by omega) (by omega) hl h
            · simp only [hcx, if_true] at h ⊢
              rw [viewOf_cont x a hcx ha]
              simp only []
              cases h3 : tvNode jp (lvl + 1) x st1 with
              | none => simp [h3] at h
              | some st3 =>
                simp only [h3] at h
                rw [sim_node jp hlen x f (lvl + 1) a st1 st3 hw.1 ha (by omega) (by omega) hcx hle h3]
                exact sim_arr jp hlen xs f lvl (i + 1) b st3 st' hw.2 hb (by omega) (by omega) hl h
      · simp at he
  theorem sim_obj (jp : List Bytes) (hlen : jp.length ≤ JBL_MAX_NESTING_LEVEL) (seen : List Bytes)
      (ms : List (Bytes × JVal)) (f lvl : Nat)
      (body : Bytes) (st st' : VS JVal) (hw : wfMembers seen ms = true) (he : encMembers seen ms = some body)
      (hs : body.length + 9 < 2 ^ 31) (hd : depthMembers ms < f) (hl : lvl ≤ jp.length)
      (h : tvObj jp lvl ms st = some st') :
      bvObj jp f lvl (ms.map fun m => (m.1, viewOf m.2)) (st.map viewOf) = some (st'.map viewOf) := by
    match ms with
    | [] =>
      simp only [tvObj, Option.some.injEq] at h; subst h
      simp [bvObj]
    | (k, x) :: ms =>
      simp only [wfMembers, Bool.and_eq_true] at hw
      obtain ⟨⟨⟨⟨_, hk⟩, _⟩, hwx⟩, hm⟩ := hw
      unfold encMembers at he
      split at he
      · simp at he
      · rename_i a ha
        split at he
        · simp at he
        · split at he
          · simp at he
          · rename_i b hb
            simp only [Option.some.injEq] at he; subst he
            simp only [List.length_cons, List.length_append] at hs
            simp only [depthMembers] at hd
            simp only [List.map_cons]
            rw [bvObj]
            by_cases ht : st.term = true
            · simp only [tvObj, ht, if_true, Option.some.injEq] at h; subst h
              simp [VS.map, ht]
            · have ht' : (st.map viewOf).term = false := by simpa [VS.map] using ht
              simp only [tvObj, ht, Bool.false_eq_true, if_false] at h
              simp only [ht', Bool.false_eq_true, if_false]
              have heq : segEqBinn (some k) 0 = segEqTree (some k) k.length :=
                funext (fun seg => segEq_key k seg (all_ne_zero k hk))
              rw [heq, getVisitor_map viewOf]
              generalize hg : getVisitor jp lvl (segEqTree (some k) k.length) x st = r at h ⊢
              obtain ⟨cmd, st1⟩ := r
              cases cmd with
              | terminate =>
                have hlt := getVisitor_terminate_lt jp lvl _ x st (by rw [hg])
                have hterm : ({ st1 with term := true } : VS JVal).term = true := rfl
                have e1 := tvNode_term jp (lvl + 1) x { st1 with term := true } hterm (by omega)
                have e2 := tvObj_term jp lvl ms { st1 with term := true } hterm
                simp only [show (Cmd.terminate == Cmd.terminate) = true from rfl,
                  show (Cmd.terminate != Cmd.skipNested) = true from rfl, Bool.true_and, if_true] at h ⊢
                cases hcx : isContainer x
                · simp only [hcx, Bool.false_eq_true, if_false, e2, Option.some.injEq] at h; subst h; rfl
                · simp only [hcx, if_true, e1, e2, Option.some.injEq] at h; subst h; rfl
              | skipNested =>
                simp only [show (Cmd.skipNested == Cmd.terminate) = false from rfl,
                  show (Cmd.skipNested != Cmd.skipNested) = false from rfl, Bool.false_and, Bool.false_eq_true, if_false] at h ⊢
                exact sim_obj jp hlen (k :: seen) ms f lvl b st1 st' hm hb (by omega) (by omega) hl h
              | ok =>
                have hle := getVisitor_ok_le jp lvl _ x st (by rw [hg])
                simp only [show (Cmd.ok == Cmd.terminate) = false from rfl,
                  show (Cmd.ok != Cmd.skipNested) = true from rfl, Bool.true_and, Bool.false_eq_true, if_false] at h ⊢
                rw [isContB_viewOf]
                cases hcx : isContainer x
                · simp only [hcx, Bool.false_eq_true, if_false] at h ⊢
                  exact sim_obj jp hlen (k :: seen) ms f lvl b st1 st' hm hb (by omega) (by omega) hl h
                · simp only [hcx, if_true] at h ⊢
                  rw [viewOf_cont x a hcx ha]
                  simp only []
                  cases h3 : tvNode jp (lvl + 1) x st1 with
                  | none => simp [h3] at h
                  | some st3 =>
                    simp only [h3] at h
                    rw [sim_node jp hlen x f (lvl + 1) a st1 st3 hwx ha (by omega) (by omega) hcx hle h3]
                    exact sim_obj jp hlen (k :: seen) ms f lvl b st3 st' hm hb (by omega) (by omega) hl h
end

end IwModel.Ptr
