import IwModel.Model.Conv
/-! `iwitoa` (model `Conv.itoa` of C19) never stores outside the caller's buffer: the guard cells of the
model memory keep their fill pattern (core Lean only). Used by C17 (`itoa_safe`). -/
namespace IwModel.Conv

/-- guard cells untouched and size unchanged -/
def Guarded (m : Mem) (max : Nat) : Prop :=
  m.length = max + 2 * pad ∧ ∀ i, i < m.length → (i < pad ∨ pad + max ≤ i) → m.getD i 0 = fill

theorem Guarded.init (max : Nat) : Guarded (Mem.init max) max := by
  refine ⟨by simp [Mem.init], ?_⟩
  intro i hi _
  simp [Mem.init] at hi ⊢
  simp [hi]

theorem Guarded.set {m : Mem} {max i v : Nat} (h : Guarded m max) (hlo : pad ≤ i) (hhi : i < pad + max) :
    Guarded (m.set i v) max := by
  refine ⟨by simpa using h.1, ?_⟩
  intro j hj hout
  have hj' : j < m.length := by simpa using hj
  have hne : i ≠ j := by omega
  have := h.2 j hj' hout
  simp only [List.getD_eq_getElem?_getD, List.getElem?_set_ne hne] at this ⊢
  exact this

theorem shiftLeft_guarded {m : Mem} {max dst n : Nat} (h : Guarded m max) (hlo : pad ≤ dst) (hhi : dst + n ≤ pad + max) :
    Guarded (shiftLeft m dst n) max := by
  unfold shiftLeft
  induction n generalizing m with
  | zero => simpa using h
  | succ n ih =>
    rw [List.range_succ, List.foldl_append]
    simp only [List.foldl_cons, List.foldl_nil]
    exact (ih h (by omega)).set (by omega) (by omega)


theorem revLoop_guarded (m : Mem) (max ptr p : Nat) (h : Guarded m max) (hlo : pad ≤ ptr) (hhi : p ≤ pad + max) :
    Guarded (revLoop m ptr p) max := by
  fun_induction revLoop m ptr p
  · rename_i m0 ptr0 p0 hgt p1 c1 m1 m2 ih
    apply ih
    · show Guarded ((m0.set (p0 - 1) _).set ptr0 _) max
      exact (h.set (i := p0 - 1) (by omega) (by omega)).set (by omega) (by omega)
    · omega
    · show p0 - 1 ≤ pad + max
      omega
  · exact h

theorem digitLoop_guarded (max ptr v : Nat) (m : Mem) (ret p : Nat) (h : Guarded m max) (hmax : 1 ≤ max)
    (hlo : pad ≤ ptr) (hp : ptr ≤ p) (hinv : p = pad + min ret (max - 1)) :
    Guarded (digitLoop max ptr v m ret p).1 max ∧ ptr ≤ (digitLoop max ptr v m ret p).2.2 ∧
      (digitLoop max ptr v m ret p).2.2 ≤ pad + (max - 1) := by
  fun_induction digitLoop max ptr v m ret p
  · rename_i m0 ret0 p0
    refine ⟨h, hp, ?_⟩
    show p0 ≤ pad + (max - 1)
    omega
  · rename_i v0 m0 ret0 p0 hv ret1 hc ih
    have hc' : ret0 + 1 ≥ max ∧ p0 = ptr := hc
    apply ih h hp
    show p0 = pad + min (ret0 + 1) (max - 1)
    omega
  · rename_i v0 m0 ret0 p0 hv ret1 hc mp m1 ih
    have hc' : ¬(ret0 + 1 ≥ max ∧ p0 = ptr) := hc
    by_cases hov : ret0 + 1 ≥ max
    · have hpp : ptr < p0 := by
        rcases Nat.lt_or_eq_of_le hp with h1 | h1
        · exact h1
        · exact absurd ⟨hov, h1.symm⟩ hc'
      have hmp : mp = (shiftLeft m0 ptr (p0 - ptr), p0 - 1) := by
        show (if h : ret0 + 1 ≥ max then (shiftLeft m0 ptr (p0 - ptr), p0 - 1) else (m0, p0)) = _
        rw [dif_pos hov]
      apply ih
      · show Guarded (mp.1.set mp.2 _) max
        rw [hmp]
        exact (shiftLeft_guarded h hlo (by omega)).set (by show pad ≤ p0 - 1; omega) (by show p0 - 1 < pad + max; omega)
      · rw [hmp]; show ptr ≤ p0 - 1 + 1; omega
      · rw [hmp]; show p0 - 1 + 1 = pad + min (ret0 + 1) (max - 1); omega
    · have hmp : mp = (m0, p0) := by
        show (if h : ret0 + 1 ≥ max then (shiftLeft m0 ptr (p0 - ptr), p0 - 1) else (m0, p0)) = _
        rw [dif_neg hov]
      apply ih
      · show Guarded (mp.1.set mp.2 _) max
        rw [hmp]
        exact h.set (by show pad ≤ p0; omega) (by show p0 < pad + max; omega)
      · rw [hmp]; show ptr ≤ p0 + 1; omega
      · rw [hmp]; show p0 + 1 = pad + min (ret0 + 1) (max - 1); omega


theorem foldl_set_guarded (m : Mem) (max n : Nat) (f : Nat → Nat) (h : Guarded m max) (hn : n ≤ max) :
    Guarded ((List.range n).foldl (fun m i => m.set (pad + i) (f i)) m) max := by
  induction n with
  | zero => simpa using h
  | succ n ih =>
    rw [List.range_succ, List.foldl_append]
    simp only [List.foldl_cons, List.foldl_nil]
    exact (ih (by omega)).set (by omega) (by omega)

/-- `iwitoa` never stores outside `buf[0 .. max)`: the guard cells in front of and behind the
    caller's buffer keep their fill pattern, for every value and every `max`. -/
theorem itoa_guarded (v : Int) (max : Nat) : Guarded (itoa v max).2 max := by
  unfold itoa
  have h0 := Guarded.init max
  dsimp only
  split
  · exact h0
  · next hmax =>
    have hm1 : 1 ≤ max := by omega
    split
    · split
      · exact h0.set (by omega) (by omega)
      · exact (h0.set (i := pad) (by omega) (by omega)).set (by omega) (by omega)
    · split
      · split
        · exact h0
        · exact (foldl_set_guarded _ max (min (max - 1) 20) _ h0 (by omega)).set (by omega) (by omega)
      · split
        · exact h0.set (by omega) (by omega)
        · next hneg =>
          by_cases hn : v < 0
          · have hmax2 : 2 ≤ max := by
              by_cases h1 : 1 ≥ max
              · exact absurd ⟨hn, h1⟩ hneg
              · omega
            simp only [hn, ↓reduceIte]
            have hg := digitLoop_guarded max (pad + 1) v.natAbs ((Mem.init max).set pad 45) 1 (pad + 1)
              (h0.set (by omega) (by omega)) hm1 (by omega) (by omega) (by omega)
            generalize digitLoop max (pad + 1) v.natAbs ((Mem.init max).set pad 45) 1 (pad + 1) = r at hg
            obtain ⟨m', ret', p'⟩ := r
            simp only at hg ⊢
            exact (revLoop_guarded m' max (pad + 1) p' hg.1 (by omega) (by omega)).set (by omega) (by omega)
          · simp only [hn, ↓reduceIte]
            have hg := digitLoop_guarded max pad v.natAbs (Mem.init max) 0 pad h0 hm1 (by omega) (by omega) (by omega)
            generalize digitLoop max pad v.natAbs (Mem.init max) 0 pad = r at hg
            obtain ⟨m', ret', p'⟩ := r
            simp only at hg ⊢
            exact (revLoop_guarded m' max pad p' hg.1 (by omega) (by omega)).set (by omega) (by omega)

theorem itoa_no_oob_writes (v : Int) (max : Nat) : oobWrites (itoa v max).2 max = [] := by
  have h := itoa_guarded v max
  unfold oobWrites
  rw [List.filter_eq_nil_iff]
  intro i hi
  simp only [List.mem_range] at hi
  simp only [decide_eq_true_eq, not_and, Decidable.not_not]
  intro hout
  exact h.2 i hi (by omega)

end IwModel.Conv
