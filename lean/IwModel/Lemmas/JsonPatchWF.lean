import IwModel.Model.JsonPatch
import IwModel.Lemmas.JsonInd
/-! Well-formedness of the cached array indexes (`klidx`) and its preservation by the tree operations of the
JSON Patch model. -/
namespace IwModel.Patch
open IwModel

/-- the elements carry the indexes `s, s+1, s+2, …` -/
def NumFrom : Int → List (Int × Node) → Prop
  | _, [] => True
  | s, p :: r => p.1 = s ∧ NumFrom (s + 1) r

/-- every array child carries its position in `klidx`, everywhere in the tree -/
inductive WF : Node → Prop
  | none : WF .none
  | null : WF .null
  | bool b : WF (.bool b)
  | int i : WF (.int i)
  | f64 b : WF (.f64 b)
  | str s : WF (.str s)
  | arr xs : NumFrom 0 xs → (∀ p ∈ xs, WF p.2) → WF (.arr xs)
  | obj ms : (∀ p ∈ ms, WF p.2) → WF (.obj ms)

theorem numFrom_append (s : Int) (a b : List (Int × Node)) :
    NumFrom s (a ++ b) ↔ NumFrom s a ∧ NumFrom (s + a.length) b := by
  induction a generalizing s with
  | nil => simp [NumFrom]
  | cons p r ih =>
    have e : s + ((r.length + 1 : Nat) : Int) = s + 1 + (r.length : Int) := by omega
    simp only [List.cons_append, NumFrom, ih, List.length_cons, and_assoc, e]

theorem numFrom_map_sub (s : Int) (xs : List (Int × Node)) :
    NumFrom s (xs.map fun p => (p.1 - 1, p.2)) ↔ NumFrom (s + 1) xs := by
  induction xs generalizing s with
  | nil => simp [NumFrom]
  | cons p r ih =>
    simp only [List.map_cons, NumFrom, ih]
    constructor
    · rintro ⟨h1, h2⟩; exact ⟨by omega, h2⟩
    · rintro ⟨h1, h2⟩; exact ⟨by omega, h2⟩

theorem numFrom_map_add (s : Int) (xs : List (Int × Node)) :
    NumFrom (s + 1) (xs.map fun p => (p.1 + 1, p.2)) ↔ NumFrom s xs := by
  induction xs generalizing s with
  | nil => simp [NumFrom]
  | cons p r ih =>
    simp only [List.map_cons, NumFrom, ih]
    constructor
    · rintro ⟨h1, h2⟩; exact ⟨by omega, h2⟩
    · rintro ⟨h1, h2⟩; exact ⟨by omega, h2⟩

theorem numFrom_take_drop (s : Int) (xs : List (Int × Node)) (i : Nat) (h : NumFrom s xs) :
    NumFrom s (xs.take i) ∧ NumFrom (s + (xs.take i).length) (xs.drop i) := by
  have := (numFrom_append s (xs.take i) (xs.drop i)).mp (by rw [List.take_append_drop]; exact h)
  exact this

theorem numFrom_getElem (s : Int) (xs : List (Int × Node)) (h : NumFrom s xs) (i : Nat) (hi : i < xs.length) :
    (xs[i]).1 = s + i := by
  induction xs generalizing s i with
  | nil => simp at hi
  | cons p r ih =>
    cases i with
    | zero => simp [NumFrom] at h ⊢; exact h.1
    | succ j =>
      simp only [List.getElem_cons_succ]
      have := ih (s + 1) h.2 j (by simpa using hi)
      rw [this]; push_cast; omega

theorem numFrom_number (s : Nat) (xs : List Node) :
    NumFrom s ((xs.zipIdx s).map fun (n, i) => ((i : Int), n)) := by
  induction xs generalizing s with
  | nil => simp [NumFrom]
  | cons x r ih =>
    simp only [List.zipIdx_cons, List.map_cons, NumFrom, true_and]
    have := ih (s + 1)
    simpa using this

/-- looking an index up by `klidx` in a well-numbered list finds the position itself -/
theorem numFrom_findIdx (s : Int) (xs : List (Int × Node)) (h : NumFrom s xs) (i : Nat) :
    xs.findIdx? (fun p => p.1 == s + i) = if i < xs.length then some i else none := by
  induction xs generalizing s i with
  | nil => simp
  | cons p r ih =>
    simp only [List.findIdx?_cons, List.length_cons]
    cases i with
    | zero =>
      have : p.1 = s := h.1
      simp [this]
    | succ j =>
      have hp : p.1 = s := h.1
      have hne : (p.1 == s + ((j + 1 : Nat) : Int)) = false := by
        rw [beq_eq_false_iff_ne, hp]; push_cast; omega
      rw [hne]
      simp only [Bool.false_eq_true, ↓reduceIte]
      have e : s + ((j + 1 : Nat) : Int) = (s + 1) + (j : Int) := by push_cast; omega
      rw [e, ih (s + 1) h.2 j]
      by_cases hj : j < r.length
      · simp [hj]
      · simp [hj]

end IwModel.Patch

namespace IwModel.Patch
open IwModel

theorem wf_arr_iff (xs : List (Int × Node)) : WF (.arr xs) ↔ NumFrom 0 xs ∧ ∀ p ∈ xs, WF p.2 :=
  ⟨fun h => by cases h with | arr _ h1 h2 => exact ⟨h1, h2⟩, fun h => WF.arr xs h.1 h.2⟩

theorem wf_obj_iff (ms : List (Bytes × Node)) : WF (.obj ms) ↔ ∀ p ∈ ms, WF p.2 :=
  ⟨fun h => by cases h with | obj _ h1 => exact h1, fun h => WF.obj ms h⟩

theorem number_eq (xs : List Node) : number xs = (xs.zipIdx 0).map fun (n, i) => ((i : Int), n) := rfl

theorem mem_number (xs : List Node) (p : Int × Node) (h : p ∈ number xs) : p.2 ∈ xs := by
  simp only [number, List.mem_map] at h
  obtain ⟨⟨n, i⟩, hm, rfl⟩ := h
  exact (List.mem_zipIdx hm).2.2 ▸ List.getElem_mem _

/-- trees built by the parsers (`ofJ`) are well-formed -/
theorem wf_ofJ (v : JVal) : WF (ofJ v) := by
  induction v using JVal.induct with
  | null => rw [ofJ]; exact WF.null
  | bool b => rw [ofJ]; exact WF.bool b
  | int i => rw [ofJ]; exact WF.int i
  | f64 b => rw [ofJ]; exact WF.f64 b
  | str s => rw [ofJ]; exact WF.str s
  | arr xs ih =>
    rw [ofJ]
    refine WF.arr _ ?_ ?_
    · have := numFrom_number 0 (xs.map ofJ)
      simpa [number] using this
    · intro p hp
      have := mem_number _ p hp
      obtain ⟨x, hx, e⟩ := List.mem_map.mp this
      rw [← e]; exact ih x hx
  | obj ms ih =>
    rw [ofJ]
    refine WF.obj _ ?_
    intro p hp
    obtain ⟨q, hq, e⟩ := List.mem_map.mp hp
    rw [← e]; exact ih q hq

theorem wf_child (n : Node) (i : Nat) (c : Node) (h : WF n) (hc : child? n i = some c) : WF c := by
  cases n with
  | arr xs =>
    simp only [child?, Option.map_eq_some_iff] at hc
    obtain ⟨p, hp, rfl⟩ := hc
    exact ((wf_arr_iff xs).mp h).2 p (List.mem_of_getElem? hp)
  | obj ms =>
    simp only [child?, Option.map_eq_some_iff] at hc
    obtain ⟨p, hp, rfl⟩ := hc
    exact ((wf_obj_iff ms).mp h) p (List.mem_of_getElem? hp)
  | _ => simp [child?] at hc

theorem wf_getP (n : Node) (ps : List Nat) (c : Node) (h : WF n) (hc : getP n ps = some c) : WF c := by
  induction ps generalizing n with
  | nil => simp [getP] at hc; exact hc ▸ h
  | cons i r ih =>
    simp only [getP] at hc
    split at hc
    · rename_i c' hc'
      exact ih c' (wf_child n i c' h hc') hc
    · simp at hc

theorem mem_modify {α} (xs : List α) (i : Nat) (f : α → α) (y : α) (h : y ∈ xs.modify i f) :
    y ∈ xs ∨ ∃ x ∈ xs, y = f x := by
  induction xs generalizing i with
  | nil => simp at h
  | cons a r ih =>
    cases i with
    | zero =>
      simp only [List.modify_zero_cons, List.mem_cons] at h
      rcases h with h | h
      · exact Or.inr ⟨a, by simp, h⟩
      · exact Or.inl (by simp [h])
    | succ j =>
      simp only [List.modify_succ_cons, List.mem_cons] at h
      rcases h with h | h
      · exact Or.inl (by simp [h])
      · rcases ih j h with h | ⟨x, hx, e⟩
        · exact Or.inl (by simp [h])
        · exact Or.inr ⟨x, by simp [hx], e⟩

theorem numFrom_modify (s : Int) (xs : List (Int × Node)) (i : Nat) (g : Node → Node) (h : NumFrom s xs) :
    NumFrom s (xs.modify i fun p => (p.1, g p.2)) := by
  induction xs generalizing s i with
  | nil => simpa using h
  | cons a r ih =>
    cases i with
    | zero => simp only [List.modify_zero_cons, NumFrom] at *; exact h
    | succ j => simp only [List.modify_succ_cons, NumFrom] at *; exact ⟨h.1, ih (s + 1) j h.2⟩

/-- rewriting a node somewhere in the tree by a function that keeps well-formedness keeps well-formedness -/
theorem wf_modP (n : Node) (ps : List Nat) (g : Node → Node) (hg : ∀ m, WF m → WF (g m)) (h : WF n) :
    WF (modP n ps g) := by
  induction ps generalizing n with
  | nil => exact hg n h
  | cons i r ih =>
    cases n with
    | arr xs =>
      rw [modP]
      obtain ⟨h1, h2⟩ := (wf_arr_iff xs).mp h
      refine WF.arr _ (numFrom_modify 0 xs i (fun m => modP m r g) h1) ?_
      intro p hp
      rcases mem_modify xs i _ p hp with hp | ⟨x, hx, e⟩
      · exact h2 p hp
      · rw [e]; exact ih x.2 (h2 x hx)
    | obj ms =>
      rw [modP]
      have h2 := (wf_obj_iff ms).mp h
      refine WF.obj _ ?_
      intro p hp
      rcases mem_modify ms i _ p hp with hp | ⟨x, hx, e⟩
      · exact h2 p hp
      · rw [e]; exact ih x.2 (h2 x hx)
    | none => simpa [modP] using h
    | null => simpa [modP] using h
    | bool b => simpa [modP] using h
    | int b => simpa [modP] using h
    | f64 b => simpa [modP] using h
    | str b => simpa [modP] using h

theorem wf_setP (n : Node) (ps : List Nat) (v : Node) (h : WF n) (hv : WF v) : WF (setP n ps v) :=
  wf_modP n ps _ (fun _ _ => hv) h

theorem wf_setChild (n : Node) (i : Nat) (v : Node) (h : WF n) (hv : WF v) : WF (setChild n i v) := by
  have : setChild n i v = modP n [i] (fun _ => v) := by
    cases n <;> simp [setChild, modP]
  rw [this]; exact wf_modP n [i] _ (fun _ _ => hv) h

/-- `_jbl_node_detach`'s renumbering keeps the array numbered -/
theorem wf_removeChild (n : Node) (i : Nat) (h : WF n) : WF (removeChild n i) := by
  cases n with
  | arr xs =>
    obtain ⟨h1, h2⟩ := (wf_arr_iff xs).mp h
    rw [removeChild]
    refine WF.arr _ ?_ ?_
    · rw [numFrom_append]
      by_cases hi : i < xs.length
      · obtain ⟨ha, hb⟩ := numFrom_take_drop 0 xs (i + 1) h1
        obtain ⟨ha', _⟩ := numFrom_take_drop 0 xs i h1
        refine ⟨ha', ?_⟩
        rw [numFrom_map_sub]
        have e1 : (xs.take (i + 1)).length = i + 1 := by simp; omega
        have e2 : (xs.take i).length = i := by simp; omega
        rw [e1] at hb; rw [e2]
        have : (0 : Int) + ((i + 1 : Nat) : Int) = 0 + (i : Int) + 1 := by omega
        rw [this] at hb; exact hb
      · have e : xs.drop (i + 1) = [] := by simp; omega
        rw [e]
        exact ⟨(numFrom_take_drop 0 xs i h1).1, by simp [NumFrom]⟩
    · intro p hp
      rcases List.mem_append.mp hp with hp | hp
      · exact h2 p (List.mem_of_mem_take hp)
      · obtain ⟨q, hq, e⟩ := List.mem_map.mp hp
        rw [← e]; exact h2 q (List.mem_of_mem_drop hq)
  | obj ms =>
    rw [removeChild]
    exact WF.obj _ fun p hp => (wf_obj_iff ms).mp h p (List.mem_of_mem_eraseIdx hp)
  | none => exact h
  | null => exact h
  | bool b => exact h
  | int b => exact h
  | f64 b => exact h
  | str b => exact h

theorem numFrom_getLast (s : Int) (xs : List (Int × Node)) (h : NumFrom s xs) (p : Int × Node)
    (hl : xs.getLast? = some p) : p.1 + 1 = s + xs.length := by
  induction xs generalizing s with
  | nil => simp at hl
  | cons a r ih =>
    cases r with
    | nil =>
      simp at hl; subst hl
      have := h.1; simp; omega
    | cons b r' =>
      have := ih (s + 1) h.2 (by simpa [List.getLast?_cons_cons] using hl)
      simp only [List.length_cons] at this ⊢
      omega

/-- `_jbn_add_item`: the new last element gets the previous last index + 1 -/
theorem wf_addItem (n : Node) (k : Bytes) (v : Node) (h : WF n) (hv : WF v) : WF (addItem n k v) := by
  cases n with
  | arr xs =>
    obtain ⟨h1, h2⟩ := (wf_arr_iff xs).mp h
    rw [addItem]
    refine WF.arr _ ?_ ?_
    · rw [numFrom_append]
      refine ⟨h1, ?_⟩
      simp only [NumFrom, and_true]
      cases hl : xs.getLast? with
      | none =>
        have : xs = [] := by simpa using hl
        subst this; simp
      | some p =>
        have := numFrom_getLast 0 xs h1 p hl
        simp only; omega
    · intro p hp
      rcases List.mem_append.mp hp with hp | hp
      · exact h2 p hp
      · simp at hp; subst hp; exact hv
  | obj ms =>
    rw [addItem]
    refine WF.obj _ ?_
    intro p hp
    rcases List.mem_append.mp hp with hp | hp
    · exact (wf_obj_iff ms).mp h p hp
    · simp at hp; subst hp; exact hv
  | none => exact h
  | null => exact h
  | bool b => exact h
  | int b => exact h
  | f64 b => exact h
  | str b => exact h

end IwModel.Patch

namespace IwModel.Patch
open IwModel

theorem wf_increment (t v : Node) (h : WF t) : WF (increment t v).1 := by
  unfold increment
  cases v <;> cases t <;> first | exact h | exact WF.int _ | exact WF.f64 _ | (dsimp only; split <;> first | exact h | exact WF.int _)

/-- inserting at a position: the new element gets the position, everything behind moves up by one -/
theorem wf_insertPlain (parent : Node) (last : Bytes) (op : OpK) (v : Node) (h : WF parent) (hv : WF v) :
    WF (insertPlain parent last op v).1 := by
  cases parent with
  | arr xs =>
    obtain ⟨h1, h2⟩ := (wf_arr_iff xs).mp h
    simp only [insertPlain]
    split
    · -- increment of an element
      split
      · rename_i i hi
        split
        · rename_i c hc
          exact wf_setChild _ i _ h (wf_increment c v (wf_child _ i c h hc))
        · exact h
      · exact h
    · split
      · exact wf_addItem _ last _ h hv
      · split
        · exact h
        · rename_i pos hpos
          split
          · exact h
          · split
            · rename_i hlt
              refine WF.arr _ ?_ ?_
              · rw [numFrom_append]
                obtain ⟨ha, hb⟩ := numFrom_take_drop 0 xs pos h1
                have e : (xs.take pos).length = pos := by simp; omega
                rw [e] at hb
                refine ⟨ha, ?_⟩
                rw [e]
                simp only [NumFrom]
                refine ⟨by omega, ?_⟩
                exact (numFrom_map_add _ _).mpr hb
              · intro p hp
                rcases List.mem_append.mp hp with hp | hp
                · exact h2 p (List.mem_of_mem_take hp)
                · rcases List.mem_cons.mp hp with rfl | hp
                  · exact hv
                  · obtain ⟨q, hq, e⟩ := List.mem_map.mp hp
                    rw [← e]; exact h2 q (List.mem_of_mem_drop hq)
            · exact wf_addItem _ last _ h hv
  | obj ms =>
    have h2 := (wf_obj_iff ms).mp h
    simp only [insertPlain]
    split
    · rename_i i hi
      split
      · split
        · rename_i c hc
          exact wf_setChild _ i _ h (wf_increment c v (wf_child _ i c h hc))
        · exact h
      · exact wf_setChild _ i _ h hv
    · split
      · exact h
      · refine WF.obj _ ?_
        intro p hp
        rcases List.mem_append.mp hp with hp | hp
        · exact h2 p hp
        · simp at hp; subst hp; exact hv
  | none => exact h
  | null => exact h
  | bool b => exact h
  | int b => exact h
  | f64 b => exact h
  | str b => exact h

theorem wf_createChain (n : Node) (segs : List Bytes) (last : Bytes) (op : OpK) (v : Node) (h : WF n) (hv : WF v) :
    WF (createChain n segs last op v).1 := by
  induction segs generalizing n with
  | nil => exact wf_insertPlain n last op v h hv
  | cons s r ih =>
    simp only [createChain]
    split
    · rename_i i hi
      split
      · rename_i c hc
        split
        · exact wf_setChild _ i _ h (ih c (wf_child n i c h hc))
        · exact h
      · exact h
    · exact wf_addItem _ _ _ h (ih (.obj []) (WF.obj _ (by simp)))

theorem wf_place (t : Node) (op : OpK) (path : Ptr) (v : Node) (h : WF t) (hv : WF v) : WF (place t op path v).1 := by
  simp only [place]
  split
  · exact h
  · split
    · rename_i pp hpp
      split
      · rename_i parent hparent
        exact wf_setP _ _ _ h (wf_insertPlain parent _ op v (wf_getP t pp parent h hparent) hv)
      · exact h
    · split
      · exact wf_createChain t _ _ op v h hv
      · exact h

theorem wf_detach (t : Node) (path : Ptr) (t' v : Node) (ps : List Nat) (h : WF t)
    (hd : detach t path = some (t', v, ps)) : WF t' ∧ WF v := by
  simp only [detach] at hd
  split at hd
  · simp at hd
  · split at hd
    · simp at hd
    · rename_i pp hpp
      split at hd
      · simp at hd
      · rename_i parent hparent
        split at hd
        · simp at hd
        · rename_i i hi
          split at hd
          · simp at hd
          · rename_i c hc
            simp only [Option.some.injEq, Prod.mk.injEq] at hd
            obtain ⟨rfl, rfl, rfl⟩ := hd
            have hp := wf_getP t pp parent h hparent
            exact ⟨wf_modP t pp _ (fun m hm => wf_removeChild m i hm) h, wf_child parent i c hp hc⟩

theorem wf_swapData (t : Node) (fp cp : List Nat) (h : WF t) : WF (swapData t fp cp) := by
  simp only [swapData]
  split
  · rename_i vf vc hf hc
    have hvf := wf_getP t fp vf h hf
    have hvc := wf_getP t cp vc h hc
    split
    · exact h
    · split
      · exact wf_setP _ _ _ h hvc
      · split
        · exact wf_setP _ _ _ h hvf
        · exact wf_setP _ _ _ (wf_setP _ _ _ h hvc) hvf
  · exact h

theorem wf_applySwap (t : Node) (path : Ptr) (frm : Option Ptr) (h : WF t) : WF (applySwap t path frm).1 := by
  simp only [applySwap]
  split
  · exact h
  · rename_i from_
    split
    · exact h
    · rename_i fp hfp
      split
      · rename_i last pp hlast hpp
        split
        · exact h
        · rename_i parent hparent
          have hmove : WF (match detach t from_ with
              | none => (t, Err.ok)
              | some (t', v, fp') =>
                match adjust pp fp' with
                | none => (t', Err.ok)
                | some pp' => (modP t' pp' (fun par => addItem par last v), Err.ok)).1 := by
            split
            · exact h
            · rename_i t' v fp' hd
              obtain ⟨ht', hv⟩ := wf_detach t from_ t' v fp' h hd
              split
              · exact ht'
              · exact wf_modP t' _ _ (fun m hm => wf_addItem m last v hm hv) ht'
          split
          · split
            · exact hmove
            · split
              · exact h
              · split
                · exact h
                · split
                  · exact wf_swapData _ _ _ h
                  · exact hmove
          · split
            · exact wf_swapData _ _ _ h
            · exact hmove
          · exact h
      · exact h

/-- an operation's value (if any) is a well-formed tree -/
def POp.WFv (o : POp) : Prop := ∀ v, o.value = some v → WF v

theorem wf_find (t : Node) (p : Ptr) (v : Node) (h : WF t) (hf : find t p = some v) : WF v := by
  simp only [find, Option.bind_eq_some_iff] at hf
  obtain ⟨ps, _, hg⟩ := hf
  exact wf_getP t ps v h hg

/-- **the index invariant**: whatever a single operation does — succeed, fail half-way, any of the nine kinds —
    every array child's cached index equals its position afterwards -/
theorem wf_applyOp (t : Node) (o : POp) (h : WF t) (ho : o.WFv) : WF (applyOp t o).1 := by
  simp only [applyOp]
  split
  · exact h
  · split
    · exact h
    · split
      · exact h
      · split
        · -- test
          split
          · exact h
          · split
            · split <;> exact h
            · exact h
        · split
          · -- root operations
            split
            · exact WF.none
            all_goals first
              | (split
                 · exact h
                 · rename_i v hv; exact ho v hv)
              | (split
                 · exact h
                 · rename_i v hv
                   simp only [Option.bind_eq_some_iff] at hv
                   obtain ⟨f, _, hf⟩ := hv
                   exact wf_find t f v h hf)
              | exact h
          · split
            · -- remove
              split
              · exact h
              · rename_i t' v ps hd; exact (wf_detach t _ t' v ps h hd).1
            · -- replace
              split
              · exact h
              · rename_i t' v ps hd
                have ht' := (wf_detach t _ t' v ps h hd).1
                split
                · exact ht'
                · rename_i v' hv'; exact wf_place t' _ _ v' ht' (ho v' hv')
            · -- move
              split
              · exact h
              · rename_i t' v ps hd
                simp only [Option.bind_eq_some_iff] at hd
                obtain ⟨f, _, hf⟩ := hd
                obtain ⟨ht', hv⟩ := wf_detach t f t' v ps h hf
                exact wf_place t' _ _ v ht' hv
            · -- copy
              split
              · exact h
              · rename_i v hv
                simp only [Option.bind_eq_some_iff] at hv
                obtain ⟨f, _, hf⟩ := hv
                exact wf_place t _ _ v h (wf_find t f v h hf)
            · exact wf_applySwap t _ _ h
            · split
              · exact h
              · rename_i v hv; exact wf_place t _ _ v h (ho v hv)

theorem wf_runOps (t : Node) (ops : List POp) (h : WF t) (ho : ∀ o ∈ ops, o.WFv) : WF (runOps t ops).1 := by
  induction ops generalizing t with
  | nil => exact h
  | cons o r ih =>
    simp only [runOps]
    have h1 := wf_applyOp t o h (ho o (by simp))
    split
    · rename_i t' heq
      rw [heq] at h1
      exact ih t' h1 (fun o' ho' => ho o' (by simp [ho']))
    · exact h1

end IwModel.Patch

namespace IwModel.Patch
open IwModel

theorem wf_decodeMembers (ms : List (Bytes × Node)) (acc r : RawOp) (hms : ∀ p ∈ ms, WF p.2)
    (hacc : ∀ v, acc.value = some v → WF v) (h : decodeMembers ms acc = .ok r) : ∀ v, r.value = some v → WF v := by
  induction ms generalizing acc with
  | nil => simp only [decodeMembers] at h; cases h; exact hacc
  | cons q rest ih =>
    obtain ⟨k, val⟩ := q
    have hrest : ∀ p ∈ rest, WF p.2 := fun p hp => hms p (by simp [hp])
    have hval : WF val := hms (k, val) (by simp)
    simp only [decodeMembers] at h
    split at h
    · split at h
      · split at h
        · (refine ih _ hrest ?_ h; exact fun v hv => hacc v hv)
        · cases h
      · cases h
    · split at h
      · refine ih _ hrest ?_ h
        intro v hv; simp only [Option.some.injEq] at hv; exact hv ▸ hval
      · split at h
        · split at h
          · (refine ih _ hrest ?_ h; exact fun v hv => hacc v hv)
          · cases h
        · split at h
          · split at h
            · (refine ih _ hrest ?_ h; exact fun v hv => hacc v hv)
            · cases h
          · (refine ih _ hrest ?_ h; exact fun v hv => hacc v hv)

theorem mapM_ok_mem {α β ε} (f : α → Except ε β) (xs : List α) (ys : List β) (h : xs.mapM f = .ok ys) :
    ∀ y ∈ ys, ∃ x ∈ xs, f x = .ok y := by
  induction xs generalizing ys with
  | nil => simp [List.mapM_nil, pure, Except.pure] at h; subst h; simp
  | cons a r ih =>
    rw [List.mapM_cons] at h
    cases hfa : f a with
    | error e => simp [hfa, bind, Except.bind] at h
    | ok b =>
      cases hr : r.mapM f with
      | error e => simp [hfa, hr, bind, Except.bind] at h
      | ok bs =>
        simp [hfa, hr, bind, Except.bind, pure, Except.pure] at h
        subst h
        intro y hy
        rcases List.mem_cons.mp hy with rfl | hy
        · exact ⟨a, by simp, hfa⟩
        · obtain ⟨x, hx, e⟩ := ih bs hr y hy
          exact ⟨x, by simp [hx], e⟩

theorem wf_children (n : Node) (h : WF n) : ∀ c ∈ children n, WF c := by
  intro c hc
  cases n with
  | arr xs =>
    simp only [children, List.mem_map] at hc
    obtain ⟨p, hp, rfl⟩ := hc
    exact ((wf_arr_iff xs).mp h).2 p hp
  | obj ms =>
    simp only [children, List.mem_map] at hc
    obtain ⟨p, hp, rfl⟩ := hc
    exact ((wf_obj_iff ms).mp h) p hp
  | _ => simp [children] at hc

theorem wf_decode (patch : Node) (ops : List RawOp) (h : WF patch) (hd : decode patch = .ok ops) :
    ∀ o ∈ ops, ∀ v, o.value = some v → WF v := by
  simp only [decode] at hd
  split at hd
  · intro o ho
    obtain ⟨c, hc, e⟩ := mapM_ok_mem _ _ _ hd o ho
    have hwc := wf_children patch h c hc
    cases c with
    | obj ms =>
      simp only at e
      exact wf_decodeMembers ms {} o ((wf_obj_iff ms).mp hwc) (by simp) e
    | _ => simp at e
  · cases hd

theorem parseOne_value (o : RawOp) (p : POp) (h : parseOne o = .ok p) : p.value = o.value := by
  simp only [parseOne] at h
  split at h
  · cases h
  · split at h
    · cases h; rfl
    · split at h
      · cases h
      · cases h; rfl

theorem wf_parseOps (raw : List RawOp) (ops : List POp) (h : ∀ o ∈ raw, ∀ v, o.value = some v → WF v)
    (hp : parseOps raw = .ok ops) : ∀ o ∈ ops, o.WFv := by
  intro o ho v hv
  obtain ⟨x, hx, e⟩ := mapM_ok_mem _ _ _ hp o ho
  rw [parseOne_value x o e] at hv
  exact h x hx v hv

/-- the tree entry points (`jbn_patch`, `jbn_patch_auto`) keep the index invariant, whatever the patch document is
    and whether or not it applies -/
theorem wf_patchTree (root patch : Node) (h : WF root) (hp : WF patch) : WF (patchTree root patch).1 := by
  simp only [patchTree]
  split
  · exact h
  · rename_i ops hd
    simp only [patchNode]
    split
    · exact h
    · split
      · exact h
      · rename_i ps hps
        exact wf_runOps root ps h (wf_parseOps ops ps (wf_decode patch ops hp hd) hps)

theorem all_zipIdx_iff (s : Nat) (xs : List (Int × Node)) :
    ((xs.zipIdx s).all fun (p, i) => p.1 == (i : Int)) = true ↔ NumFrom s xs := by
  induction xs generalizing s with
  | nil => simp [NumFrom]
  | cons a r ih =>
    simp only [List.zipIdx_cons, List.all_cons, Bool.and_eq_true, beq_iff_eq, NumFrom]
    rw [ih (s + 1)]
    simp

/-- the executable check printed by the driver (`kl=1`) and by the harness is the invariant -/
theorem klOk_iff (n : Node) : klOk n = true ↔ WF n := by
  induction n using Node.induct with
  | none => simp [klOk]; exact WF.none
  | null => simp [klOk]; exact WF.null
  | bool b => simp [klOk]; exact WF.bool b
  | int i => simp [klOk]; exact WF.int i
  | f64 b => simp [klOk]; exact WF.f64 b
  | str s => simp [klOk]; exact WF.str s
  | arr xs ih =>
    rw [klOk, wf_arr_iff, Bool.and_eq_true, all_zipIdx_iff 0 xs]
    have e0 : ((0 : Nat) : Int) = 0 := rfl
    rw [e0]
    simp only [List.all_eq_true, List.mem_attach, forall_const, Subtype.forall]
    constructor
    · rintro ⟨h1, h2⟩; exact ⟨h1, fun p hp => (ih p hp).mp (h2 p hp)⟩
    · rintro ⟨h1, h2⟩; exact ⟨h1, fun p hp => (ih p hp).mpr (h2 p hp)⟩
  | obj ms ih =>
    rw [klOk, wf_obj_iff]
    simp only [List.all_eq_true, List.mem_attach, forall_const, Subtype.forall]
    constructor
    · intro h2 p hp; exact (ih p hp).mp (h2 p hp)
    · intro h2 p hp; exact (ih p hp).mpr (h2 p hp)

end IwModel.Patch
