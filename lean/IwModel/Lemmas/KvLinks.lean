import IwModel.Model.KvLinks
/-! Lemmas about the explicit-link model (`Model/KvLinks.lean`).

The working invariant is `Rep s L`: the state `s` is the canonical threading of the abstract list
`L : List (block × level)` (level-0 order).  `insert`/`remove` are shown to map `Rep s (A ++ B)` to
`Rep s' (A ++ (nid, l) :: B)` resp. `Rep s (A ++ (t, l) :: B)` to `Rep s' (A ++ B)`; the property
`LinkInv` of Props/C06.lean (stated with `follow`) is shown equivalent to `∃ L, Rep s L`. -/
namespace IwModel.KvLinks

abbrev AL := List (Nat × Nat)

/-- block of the first node of level `≥ i`, 0 if none -/
def nextAt (i : Nat) : AL → Nat
  | [] => 0
  | (x, l) :: r => if i ≤ l then x else nextAt i r

/-- block of the last node of level `≥ i`, `d` if none -/
def lowerAt (i : Nat) (d : Nat) : AL → Nat
  | [] => d
  | (x, l) :: r => lowerAt i (if i ≤ l then x else d) r

/-- block of the last node, `d` if none -/
def lastId (d : Nat) : AL → Nat
  | [] => d
  | (x, _) :: r => lastId x r

def cnt (i : Nat) (L : AL) : Nat := (L.filter (fun p => p.2 = i)).length

def ids (L : AL) : List Nat := L.map (·.1)

/-- some node has level `≥ i` -/
def hasLvl (i : Nat) (L : AL) : Bool := L.any (fun p => i ≤ p.2)

theorem nextAt_append (i : Nat) (a b : AL) :
    nextAt i (a ++ b) = if hasLvl i a then nextAt i a else nextAt i b := by
  induction a with
  | nil => simp [hasLvl]
  | cons p r ih =>
    obtain ⟨x, l⟩ := p
    by_cases h : i ≤ l
    · simp [nextAt, hasLvl, h]
    · simp only [hasLvl] at ih
      simp only [nextAt, hasLvl, List.cons_append, if_neg h, ih, List.any_cons, decide_eq_false h, Bool.false_or]
      rfl

theorem nextAt_none (i : Nat) (a : AL) (h : hasLvl i a = false) : nextAt i a = 0 := by
  induction a with
  | nil => rfl
  | cons p r ih =>
    obtain ⟨x, l⟩ := p
    simp only [hasLvl, List.any_cons, Bool.or_eq_false_iff, decide_eq_false_iff_not] at h
    simp only [nextAt, h.1, if_false]
    exact ih h.2

theorem nextAt_mem (i : Nat) (a : AL) (h : hasLvl i a = true) : ∃ l, (nextAt i a, l) ∈ a ∧ i ≤ l := by
  induction a with
  | nil => simp [hasLvl] at h
  | cons p r ih =>
    obtain ⟨x, l⟩ := p
    by_cases hl : i ≤ l
    · exact ⟨l, by simp [nextAt, hl], hl⟩
    · simp only [hasLvl, List.any_cons, hl, decide_false, Bool.false_or] at h
      obtain ⟨l', h1, h2⟩ := ih h
      exact ⟨l', by simp [nextAt, hl, h1], h2⟩

theorem lowerAt_append (i d : Nat) (a b : AL) : lowerAt i d (a ++ b) = lowerAt i (lowerAt i d a) b := by
  induction a generalizing d with
  | nil => rfl
  | cons p r ih => obtain ⟨x, l⟩ := p; simp [lowerAt, ih]

theorem lowerAt_none (i d : Nat) (a : AL) (h : hasLvl i a = false) : lowerAt i d a = d := by
  induction a generalizing d with
  | nil => rfl
  | cons p r ih =>
    obtain ⟨x, l⟩ := p
    simp only [hasLvl, List.any_cons, Bool.or_eq_false_iff, decide_eq_false_iff_not] at h
    simp only [lowerAt, h.1, if_false]
    exact ih d h.2

/-- the last node of level `≥ i`, with what precedes and follows it -/
theorem lowerAt_split (i d : Nat) (a : AL) (h : hasLvl i a = true) :
    ∃ P l A2, a = P ++ (lowerAt i d a, l) :: A2 ∧ i ≤ l ∧ hasLvl i A2 = false := by
  induction a generalizing d with
  | nil => simp [hasLvl] at h
  | cons p r ih =>
    obtain ⟨x, l⟩ := p
    by_cases hr : hasLvl i r = true
    · obtain ⟨P, l', A2, h1, h2, h3⟩ := ih (if i ≤ l then x else d) hr
      refine ⟨(x, l) :: P, l', A2, ?_, h2, h3⟩
      simp only [lowerAt, List.cons_append]
      exact congrArg _ h1
    · have hr' : hasLvl i r = false := by simpa using hr
      have hl : i ≤ l := by
        simp only [hasLvl, List.any_cons, Bool.or_eq_true, decide_eq_true_eq] at h
        rcases h with h | h
        · exact h
        · simp only [hasLvl] at hr'; rw [hr'] at h; simp at h
      refine ⟨[], l, r, ?_, hl, hr'⟩
      simp [lowerAt, hl, lowerAt_none i x r hr']

theorem lowerAt_split_mem (i d : Nat) (a : AL) (h : hasLvl i a = true) : ∃ l, (lowerAt i d a, l) ∈ a ∧ i ≤ l := by
  obtain ⟨P, l, A2, h1, h2, _⟩ := lowerAt_split i d a h
  have : (lowerAt i d a, l) ∈ P ++ (lowerAt i d a, l) :: A2 := by simp
  rw [← h1] at this
  exact ⟨l, this, h2⟩

theorem lowerAt_zero (d : Nat) (a : AL) : lowerAt 0 d a = lastId d a := by
  induction a generalizing d with
  | nil => rfl
  | cons p r ih => obtain ⟨x, l⟩ := p; simp [lowerAt, lastId, ih]

theorem lastId_append (d : Nat) (a b : AL) : lastId d (a ++ b) = lastId (lastId d a) b := by
  induction a generalizing d with
  | nil => rfl
  | cons p r ih => obtain ⟨x, l⟩ := p; simp [lastId, ih]

theorem lastId_ne_nil (d d' : Nat) (a : AL) (h : a ≠ []) : lastId d a = lastId d' a := by
  cases a with
  | nil => exact absurd rfl h
  | cons p r => rfl

theorem lastId_getLast (d : Nat) (a : AL) : lastId d a = (ids a).getLast?.getD d := by
  induction a generalizing d with
  | nil => rfl
  | cons p r ih => obtain ⟨x, l⟩ := p; simp only [lastId, ids, List.map_cons, List.getLast?_cons, Option.getD_some]; exact ih x

theorem lowerAt_mem (i d : Nat) (a : AL) : lowerAt i d a = d ∨ lowerAt i d a ∈ ids a := by
  by_cases h : hasLvl i a = true
  · obtain ⟨P, l, A2, h1, _, _⟩ := lowerAt_split i d a h
    right
    have : (lowerAt i d a, l) ∈ a := by
      have : (lowerAt i d a, l) ∈ P ++ (lowerAt i d a, l) :: A2 := by simp
      rwa [← h1] at this
    exact List.mem_map.2 ⟨_, this, rfl⟩
  · left; exact lowerAt_none i d a (by simpa using h)

theorem hasLvl_append (i : Nat) (a b : AL) : hasLvl i (a ++ b) = (hasLvl i a || hasLvl i b) := by
  simp [hasLvl]

theorem hasLvl_mono {i j : Nat} (hij : i ≤ j) (a : AL) (h : hasLvl j a = true) : hasLvl i a = true := by
  simp only [hasLvl, List.any_eq_true, decide_eq_true_eq] at h ⊢
  obtain ⟨p, hp, hl⟩ := h
  exact ⟨p, hp, by omega⟩

theorem nextAt_eq_head (i : Nat) (a : AL) : nextAt i a = (ids (a.filter fun p => i ≤ p.2)).head?.getD 0 := by
  induction a with
  | nil => rfl
  | cons p r ih =>
    obtain ⟨x, l⟩ := p
    by_cases h : i ≤ l <;> simp [nextAt, h, ids] at * <;> exact ih

theorem lowerAt_eq_last (i d : Nat) (a : AL) : lowerAt i d a = (ids (a.filter fun p => i ≤ p.2)).getLast?.getD d := by
  induction a generalizing d with
  | nil => rfl
  | cons p r ih =>
    obtain ⟨x, l⟩ := p
    by_cases h : i ≤ l
    · simp only [lowerAt, h, if_true, List.filter_cons, decide_true, ids, List.map_cons, List.getLast?_cons, Option.getD_some]
      exact ih x
    · simp only [lowerAt, h, if_false, List.filter_cons, decide_false]
      exact ih d

theorem cnt_append (i : Nat) (a b : AL) : cnt i (a ++ b) = cnt i a + cnt i b := by simp [cnt]

theorem cnt_cons (i x l : Nat) (a : AL) : cnt i ((x, l) :: a) = (if l = i then 1 else 0) + cnt i a := by
  by_cases h : l = i <;> simp [cnt, h] <;> omega

/-! ### the representation invariant -/

/-- the node `x` of level `l` as the threading of `pre ++ (x, l) :: post` stores it -/
def canonNode (blk : Nat) (pre : AL) (x l : Nat) (post : AL) : LNode :=
  ⟨x, l, (List.range (l + 1)).map (nextAt · post), lastId blk pre⟩

/-- `s` is the threading of the abstract list `L` of (block, level) pairs in level-0 order -/
structure Rep (s : LDb) (L : AL) : Prop where
  blk_ne : s.blk ≠ 0
  nodup : (ids L).Nodup
  idok : ∀ p ∈ L, p.1 ≠ 0 ∧ p.1 ≠ s.blk ∧ p.2 < SLEVELS
  heap_nodup : (s.heap.map (·.id)).Nodup
  heap_ids : ∀ nd ∈ s.heap, nd.id ∈ ids L
  node : ∀ pre x l post, L = pre ++ (x, l) :: post → node? s x = some (canonNode s.blk pre x l post)
  hn : s.hn = (List.range SLEVELS).map (nextAt · L)
  tail : s.tail = lastId s.blk L ∨ (L = [] ∧ s.tail = 0)
  lcnt : s.lcnt = (List.range SLEVELS).map (cnt · L)

theorem getD_map_range (f : Nat → Nat) (n i : Nat) : ((List.range n).map f).getD i 0 = if i < n then f i else 0 := by
  by_cases h : i < n <;> simp [List.getD_eq_getElem?_getD, h]

theorem hasLvl_high {s : LDb} {L : AL} (h : Rep s L) {i : Nat} (hi : SLEVELS ≤ i) : hasLvl i L = false := by
  simp only [hasLvl, List.any_eq_false, decide_eq_true_eq]
  intro p hp
  have := (h.idok p hp).2.2
  omega

theorem Rep.link_blk {s : LDb} {L : AL} (h : Rep s L) (i : Nat) : link s s.blk i = nextAt i L := by
  simp only [link, if_true, h.hn, getD_map_range]
  split
  · rfl
  · rw [nextAt_none i L (hasLvl_high h (by omega))]

theorem Rep.ne_blk {s : LDb} {L : AL} (h : Rep s L) {pre post : AL} {x l : Nat} (hs : L = pre ++ (x, l) :: post) :
    x ≠ 0 ∧ x ≠ s.blk ∧ l < SLEVELS := h.idok (x, l) (by rw [hs]; simp)

theorem Rep.link_node {s : LDb} {L : AL} (h : Rep s L) {pre post : AL} {x l : Nat} (hs : L = pre ++ (x, l) :: post)
    (i : Nat) : link s x i = if i ≤ l then nextAt i post else 0 := by
  have hx := (h.ne_blk hs).2.1
  simp only [link, if_neg hx, h.node pre x l post hs, canonNode, getD_map_range]
  by_cases hi : i ≤ l
  · rw [if_pos hi, if_pos (by omega)]
  · rw [if_neg hi, if_neg (by omega)]

theorem Rep.lvlOf_eq {s : LDb} {L : AL} (h : Rep s L) {pre post : AL} {x l : Nat} (hs : L = pre ++ (x, l) :: post) :
    lvlOf s x = l := by
  simp only [KvLinks.lvlOf, h.node pre x l post hs, canonNode]

theorem Rep.p0Of_eq {s : LDb} {L : AL} (h : Rep s L) {pre post : AL} {x l : Nat} (hs : L = pre ++ (x, l) :: post) :
    p0Of s x = lastId s.blk pre := by
  simp only [KvLinks.p0Of, h.node pre x l post hs, canonNode]

theorem node?_mem {s : LDb} {x : Nat} {nd : LNode} (h : node? s x = some nd) : nd ∈ s.heap ∧ nd.id = x := by
  have := List.find?_some h
  exact ⟨List.mem_of_find?_eq_some h, by simpa using this⟩

theorem mem_split {α : Type} {a : α} {l : List α} (h : a ∈ l) : ∃ pre post, l = pre ++ a :: post := by
  obtain ⟨pre, post, h⟩ := List.append_of_mem h
  exact ⟨pre, post, h⟩

theorem Rep.len_le {s : LDb} {L : AL} (h : Rep s L) : L.length ≤ s.heap.length := by
  have : (ids L).length ≤ (s.heap.map (·.id)).length := by
    apply List.Nodup.length_le_of_subset h.nodup
    intro x hx
    obtain ⟨p, hp, rfl⟩ := List.mem_map.1 hx
    obtain ⟨pre, post, hs⟩ := mem_split hp
    have := node?_mem (h.node pre p.1 p.2 post hs)
    exact List.mem_map.2 ⟨_, this.1, this.2⟩
  simpa [ids] using this

theorem Rep.heap_len {s : LDb} {L : AL} (h : Rep s L) : s.heap.length = L.length := by
  have : (s.heap.map (·.id)).length ≤ (ids L).length := by
    apply List.Nodup.length_le_of_subset h.heap_nodup
    intro x hx
    obtain ⟨nd, hnd, rfl⟩ := List.mem_map.1 hx
    exact h.heap_ids nd hnd
  have h2 := h.len_le
  simp [ids] at this
  omega

/-- following `n[i]` from the first node of level `≥ i` of a suffix `S` visits the nodes of level `≥ i` of `S` -/
theorem Rep.follow_suffix {s : LDb} {L : AL} (h : Rep s L) (i : Nat) :
    ∀ (S P : AL) (fuel : Nat), L = P ++ S → S.length ≤ fuel →
      follow s i fuel (nextAt i S) = ids (S.filter fun p => i ≤ p.2) := by
  intro S
  induction S with
  | nil => intro P fuel _ _; cases fuel <;> simp [follow, nextAt, ids]
  | cons p r ih =>
    intro P fuel hs hf
    obtain ⟨x, l⟩ := p
    by_cases hl : i ≤ l
    · cases fuel with
      | zero => simp at hf
      | succ f =>
        have hx := (h.ne_blk hs).1
        simp only [nextAt, follow, if_neg hx, List.filter_cons, hl, decide_true, if_true, ids, List.map_cons]
        rw [h.link_node hs i, if_pos hl]
        exact congrArg _ (ih (P ++ [(x, l)]) f (by simp [hs]) (by simpa using hf))
    · simp only [nextAt, List.filter_cons, hl, decide_false]
      exact ih (P ++ [(x, l)]) fuel (by simp [hs]) (by simp at hf; omega)

theorem Rep.chainAt_eq {s : LDb} {L : AL} (h : Rep s L) (i : Nat) : chainAt s i = ids (L.filter fun p => i ≤ p.2) := by
  have h1 := h.link_blk i
  simp only [link, if_true] at h1
  simp only [KvLinks.chainAt, h1]
  exact h.follow_suffix i L [] _ rfl (by have := h.len_le; omega)

theorem Rep.order_eq {s : LDb} {L : AL} (h : Rep s L) : order s = ids L := by
  simp only [KvLinks.order, h.chainAt_eq 0, Nat.zero_le, decide_true]
  congr 1
  exact List.filter_eq_self.2 (fun _ _ => rfl)

theorem Rep.levels_eq {s : LDb} {L : AL} (h : Rep s L) : levels s = L.map (·.2) := by
  simp only [KvLinks.levels, h.order_eq, ids, List.map_map]
  apply List.map_congr_left
  intro p hp
  obtain ⟨pre, post, hs⟩ := mem_split hp
  exact h.lvlOf_eq (x := p.1) (l := p.2) hs

/-! ### the head level -/

def maxLvl (L : AL) : Nat := (L.map (·.2)).foldr max 0

theorem le_maxLvl {L : AL} {p : Nat × Nat} (hp : p ∈ L) : p.2 ≤ maxLvl L := by
  induction L with
  | nil => simp at hp
  | cons q r ih =>
    simp only [maxLvl, List.map_cons, List.foldr_cons]
    rcases List.mem_cons.1 hp with rfl | hp
    · exact Nat.le_max_left _ _
    · exact Nat.le_trans (ih hp) (Nat.le_max_right _ _)

theorem maxLvl_mem {L : AL} (hne : L ≠ []) : ∃ p ∈ L, p.2 = maxLvl L := by
  induction L with
  | nil => exact absurd rfl hne
  | cons q r ih =>
    by_cases hr : r = []
    · subst hr; exact ⟨q, by simp, by simp [maxLvl]⟩
    · obtain ⟨p, hp, he⟩ := ih hr
      by_cases hq : maxLvl r ≤ q.2
      · exact ⟨q, by simp, by simp only [maxLvl, List.map_cons, List.foldr_cons]; simp only [maxLvl] at hq; omega⟩
      · exact ⟨p, by simp [hp], by simp only [maxLvl, List.map_cons, List.foldr_cons]; simp only [maxLvl] at hq he; omega⟩

theorem hasLvl_iff_maxLvl (i : Nat) (L : AL) : hasLvl i L = true ↔ L ≠ [] ∧ i ≤ maxLvl L := by
  constructor
  · intro h
    simp only [hasLvl, List.any_eq_true, decide_eq_true_eq] at h
    obtain ⟨p, hp, hl⟩ := h
    exact ⟨List.ne_nil_of_mem hp, Nat.le_trans hl (le_maxLvl hp)⟩
  · intro ⟨hne, hl⟩
    obtain ⟨p, hp, he⟩ := maxLvl_mem hne
    simp only [hasLvl, List.any_eq_true, decide_eq_true_eq]
    exact ⟨p, hp, by omega⟩

theorem takeWhile_len (f : Nat → Nat) (m : Nat) (hf : ∀ j, f j ≠ 0 ↔ j < m) :
    ∀ n a, a ≤ m → (((List.range' a n).map f).takeWhile (· ≠ 0)).length = min n (m - a) := by
  intro n
  induction n with
  | zero => intro a _; simp
  | succ n ih =>
    intro a ha
    simp only [List.range'_succ, List.map_cons, List.takeWhile_cons]
    by_cases hfa : f a ≠ 0
    · have := (hf a).1 hfa
      simp only [hfa, decide_true, if_true, List.length_cons, ne_eq, not_false_eq_true]
      rw [ih (a + 1) (by omega)]
      omega
    · have : ¬ a < m := fun hlt => hfa ((hf a).2 hlt)
      have hfa' : f a = 0 := by simpa using hfa
      simp only [hfa', ne_eq, not_true_eq_false, decide_false, Bool.false_eq_true, if_false, List.length_nil]
      omega

theorem Rep.nextAt_ne_zero {s : LDb} {L : AL} (h : Rep s L) {S : AL} (hS : ∀ p ∈ S, p ∈ L) (i : Nat) :
    nextAt i S ≠ 0 ↔ hasLvl i S = true := by
  constructor
  · intro hne
    by_cases hh : hasLvl i S = true
    · exact hh
    · exact absurd (nextAt_none i S (by simpa using hh)) hne
  · intro hh
    obtain ⟨l, hm, _⟩ := nextAt_mem i S hh
    exact (h.idok _ (hS _ hm)).1

theorem Rep.headLvl_eq {s : LDb} {L : AL} (h : Rep s L) : headLvl s = maxLvl L := by
  simp only [KvLinks.headLvl, h.hn, List.range_eq_range']
  by_cases hne : L = []
  · subst hne
    rw [takeWhile_len (nextAt · []) 0 (by intro j; simp [nextAt]) SLEVELS 0 (Nat.le_refl _)]
    simp [maxLvl]
  · have hm : maxLvl L < SLEVELS := by
      obtain ⟨p, hp, he⟩ := maxLvl_mem hne
      have := (h.idok p hp).2.2
      omega
    rw [takeWhile_len (nextAt · L) (maxLvl L + 1) ?_ SLEVELS 0 (Nat.zero_le _)]
    · omega
    · intro j
      rw [h.nextAt_ne_zero (fun _ hp => hp) j, hasLvl_iff_maxLvl]
      constructor
      · intro ⟨_, hl⟩; omega
      · intro hl; exact ⟨hne, by omega⟩

theorem Rep.hasLvl_above {s : LDb} {L : AL} (h : Rep s L) {i : Nat} (hi : headLvl s < i) : hasLvl i L = false := by
  cases hh : hasLvl i L with
  | false => rfl
  | true =>
    have := ((hasLvl_iff_maxLvl i L).1 hh).2
    rw [h.headLvl_eq] at hi
    omega

/-! ### `_lx_find_bounds` -/

theorem Rep.roll {s : LDb} {L : AL} (h : Rep s L) (before : Nat → Bool) (B : AL)
    (hB : ∀ p ∈ B, before p.1 = false) (i : Nat) :
    ∀ (A2 P : AL) (x fuel up0 : Nat), L = P ++ (A2 ++ B) → A2.length < fuel →
      link s x i = nextAt i (A2 ++ B) → (∀ p ∈ A2, before p.1 = true) →
      rollForward s before i fuel x up0 = (lowerAt i x A2, if hasLvl i B then nextAt i B else up0) := by
  intro A2
  induction A2 with
  | nil =>
    intro P x fuel up0 hL hf hlink _
    cases fuel with
    | zero => simp at hf
    | succ f =>
      have hBL : ∀ p ∈ B, p ∈ L := by intro p hp; rw [hL]; simp [hp]
      simp only [List.nil_append] at hlink
      simp only [rollForward, hlink, lowerAt]
      by_cases hh : hasLvl i B = true
      · have hne := (h.nextAt_ne_zero hBL i).2 hh
        obtain ⟨l, hm, _⟩ := nextAt_mem i B hh
        simp [hne, hB _ hm, hh]
      · have hh' : hasLvl i B = false := by simpa using hh
        simp [nextAt_none i B hh', hh']
  | cons q r ih =>
    intro P x fuel up0 hL hf hlink hA
    obtain ⟨y, ly⟩ := q
    have hL' : L = (P ++ [(y, ly)]) ++ (r ++ B) := by simp [hL]
    have hL'' : L = P ++ (y, ly) :: (r ++ B) := by simp [hL]
    by_cases hl : i ≤ ly
    · cases fuel with
      | zero => simp at hf
      | succ f =>
        have hy := (h.ne_blk hL'').1
        have hby := hA (y, ly) (by simp)
        simp only [List.cons_append, nextAt, if_pos hl] at hlink
        simp only [rollForward, hlink, if_neg hy, hby, if_true, lowerAt, if_pos hl]
        apply ih (P ++ [(y, ly)]) y f up0 hL' (by simpa using hf)
        · rw [h.link_node hL'' i, if_pos hl]
        · intro p hp; exact hA p (by simp [hp])
    · simp only [List.cons_append, nextAt, if_neg hl] at hlink
      simp only [lowerAt, if_neg hl]
      apply ih (P ++ [(y, ly)]) x fuel up0 hL' (by simp at hf; omega) hlink
      intro p hp; exact hA p (by simp [hp])

/-- one level of the descent: from the bounds of level `lvl + 1` to those of level `lvl` -/
theorem Rep.level_step {s : LDb} {L A B : AL} (h : Rep s L) (hL : L = A ++ B) (before : Nat → Bool)
    (hA : ∀ p ∈ A, before p.1 = true) (hB : ∀ p ∈ B, before p.1 = false) (lvl : Nat) :
    (if link s (lowerAt (lvl + 1) s.blk A) lvl = nextAt (lvl + 1) B then (lowerAt (lvl + 1) s.blk A, nextAt (lvl + 1) B)
     else rollForward s before lvl (s.heap.length + 1) (lowerAt (lvl + 1) s.blk A) (nextAt (lvl + 1) B)) =
    (lowerAt lvl s.blk A, nextAt lvl B) := by
  -- the part `A2` of `A` behind the current lower bound
  have key : ∃ P A2, L = P ++ (A2 ++ B) ∧ link s (lowerAt (lvl + 1) s.blk A) lvl = nextAt lvl (A2 ++ B) ∧
      lowerAt lvl s.blk A = lowerAt lvl (lowerAt (lvl + 1) s.blk A) A2 ∧ (∀ p ∈ A2, p ∈ A) := by
    by_cases hh : hasLvl (lvl + 1) A = true
    · obtain ⟨P, l, A2, h1, h2, h3⟩ := lowerAt_split (lvl + 1) s.blk A hh
      have hL2 : L = P ++ (lowerAt (lvl + 1) s.blk A, l) :: (A2 ++ B) := by rw [hL]; conv => lhs; rw [h1]; simp
      refine ⟨P ++ [(lowerAt (lvl + 1) s.blk A, l)], A2, by simp [hL2], ?_, ?_, ?_⟩
      · rw [h.link_node hL2 lvl, if_pos (by omega)]
      · conv => lhs; rw [h1]
        rw [lowerAt_append]
        simp only [lowerAt, if_pos (show lvl ≤ l by omega)]
      · intro p hp; rw [h1]; simp [hp]
    · have hh' : hasLvl (lvl + 1) A = false := by simpa using hh
      refine ⟨[], A, by simp [hL], ?_, ?_, fun _ hp => hp⟩
      · rw [lowerAt_none _ _ _ hh', h.link_blk, hL]
      · rw [lowerAt_none _ _ _ hh']
  obtain ⟨P, A2, hL2, hlink, hlow, hsub⟩ := key
  have hu : hasLvl lvl B = false → nextAt (lvl + 1) B = nextAt lvl B := by
    intro hb
    rw [nextAt_none lvl B hb, nextAt_none (lvl + 1) B]
    cases hc : hasLvl (lvl + 1) B with
    | false => rfl
    | true => rw [hasLvl_mono (Nat.le_succ lvl) B hc] at hb; exact absurd hb (by simp)
  have hBL : ∀ p ∈ B, p ∈ L := by intro p hp; rw [hL]; simp [hp]
  have hA2L : ∀ p ∈ A2, p ∈ L := by intro p hp; rw [hL]; simp [hsub p hp]
  split
  · rename_i hsc
    rw [hlink] at hsc
    -- the link from `lower` already is `upper`: nothing of level `≥ lvl` in `A2`
    have hno : hasLvl lvl A2 = false := by
      cases hc : hasLvl lvl A2 with
      | false => rfl
      | true =>
        exfalso
        rw [nextAt_append, hc, if_pos rfl] at hsc
        obtain ⟨l, hm, _⟩ := nextAt_mem lvl A2 hc
        have hne := (h.nextAt_ne_zero hA2L lvl).2 hc
        have hbA := hA _ (hsub _ hm)
        rw [hsc] at hne hbA
        have hhB : hasLvl (lvl + 1) B = true := (h.nextAt_ne_zero hBL (lvl + 1)).1 hne
        obtain ⟨l', hm', _⟩ := nextAt_mem (lvl + 1) B hhB
        rw [hB _ hm'] at hbA
        exact absurd hbA (by simp)
    rw [nextAt_append, hno] at hsc
    simp only [Bool.false_eq_true, if_false] at hsc
    rw [hlow, lowerAt_none _ _ _ hno, hsc]
  · have := h.roll before B hB lvl A2 P (lowerAt (lvl + 1) s.blk A) (s.heap.length + 1) (nextAt (lvl + 1) B) hL2
      (by have := h.len_le; rw [hL2] at this; simp at this; omega) hlink (fun p hp => hA p (hsub p hp))
    rw [this, hlow]
    cases hb : hasLvl lvl B with
    | true => simp
    | false => simp [hu hb]

theorem Rep.descend_eq {s : LDb} {L A B : AL} (h : Rep s L) (hL : L = A ++ B) (before : Nat → Bool)
    (hA : ∀ p ∈ A, before p.1 = true) (hB : ∀ p ∈ B, before p.1 = false) (nlvl : Nat) :
    ∀ (k : Nat) (c : Chute), descend s before nlvl k (lowerAt k s.blk A) (nextAt k B) c =
      (⟨(List.range (min k (nlvl + 1))).map (lowerAt · s.blk A) ++ c.lower,
        (List.range (min k (nlvl + 1))).map (nextAt · B) ++ c.upper⟩, lowerAt 0 s.blk A, nextAt 0 B) := by
  intro k
  induction k with
  | zero => intro c; simp [KvLinks.descend]
  | succ lvl ih =>
    intro c
    simp only [KvLinks.descend]
    rw [h.level_step hL before hA hB lvl]
    simp only []
    rw [ih]
    by_cases hl : lvl ≤ nlvl
    · have e1 : min (lvl + 1) (nlvl + 1) = lvl + 1 := by omega
      have e2 : min lvl (nlvl + 1) = lvl := by omega
      simp [hl, e1, e2, List.range_succ]
    · have e1 : min (lvl + 1) (nlvl + 1) = nlvl + 1 := by omega
      have e2 : min lvl (nlvl + 1) = nlvl + 1 := by omega
      simp [hl, e1, e2]

theorem Rep.findBounds_eq {s : LDb} {L A B : AL} (h : Rep s L) (hL : L = A ++ B) (before : Nat → Bool)
    (hA : ∀ p ∈ A, before p.1 = true) (hB : ∀ p ∈ B, before p.1 = false) (nlvl : Nat) :
    findBounds s before nlvl =
      (⟨(List.range (nlvl + 1)).map (lowerAt · s.blk A), (List.range (nlvl + 1)).map (nextAt · B)⟩,
        lowerAt 0 s.blk A, nextAt 0 B) := by
  have hk : hasLvl (max (headLvl s) nlvl + 1) L = false := h.hasLvl_above (by omega)
  rw [hL, hasLvl_append, Bool.or_eq_false_iff] at hk
  have := h.descend_eq hL before hA hB nlvl (max (headLvl s) nlvl + 1) ⟨[], []⟩
  rw [lowerAt_none _ _ _ hk.1, nextAt_none _ _ hk.2] at this
  simp only [KvLinks.findBounds, this, List.append_nil]
  have e : min (max (headLvl s) nlvl + 1) (nlvl + 1) = nlvl + 1 := by omega
  rw [e]

/-! ### what the field updates do -/

theorem getD_map_range' (f : Nat → Nat) (n i d : Nat) : ((List.range n).map f).getD i d = if i < n then f i else d := by
  by_cases h : i < n <;> simp [List.getD_eq_getElem?_getD, h]

theorem ext_getD {l1 l2 : List Nat} (hl : l1.length = l2.length) (h : ∀ j, j < l1.length → l1.getD j 0 = l2.getD j 0) :
    l1 = l2 := by
  apply List.ext_getElem hl
  intro j h1 h2
  have := h j h1
  simpa [List.getD_eq_getElem?_getD, h1, h2] using this

theorem node?_map (s : LDb) (f : LNode → LNode) (hf : ∀ nd, (f nd).id = nd.id) (x : Nat) :
    node? { s with heap := s.heap.map f } x = (node? s x).map f := by
  simp only [node?, List.find?_map]
  congr 2
  funext nd
  simp [hf]

/-- the effect of `fixLevels` on one link array: entry `j < k` is overwritten if block `lo[j]` is this block -/
def fixN (lo : List Nat) (val : Nat → Nat) (y : Nat) : Nat → List Nat → List Nat
  | 0, n => n
  | k + 1, n => if lo.getD k 0 = y then (fixN lo val y k n).set k (val k) else fixN lo val y k n

theorem fixN_length (lo : List Nat) (val : Nat → Nat) (y k : Nat) (n : List Nat) : (fixN lo val y k n).length = n.length := by
  induction k with
  | zero => rfl
  | succ k ih => simp only [fixN]; split <;> simp [ih]

theorem getD_set (l : List Nat) (k v j : Nat) : (l.set k v).getD j 0 = if j = k ∧ k < l.length then v else l.getD j 0 := by
  simp only [List.getD_eq_getElem?_getD, List.getElem?_set]
  by_cases hj : k = j
  · subst hj
    by_cases hl : k < l.length
    · simp [hl]
    · simp [hl]
  · have : ¬ (j = k ∧ k < l.length) := fun h => hj h.1.symm
    simp [hj, this]

theorem fixN_getD (lo : List Nat) (val : Nat → Nat) (y k : Nat) (n : List Nat) (j : Nat) :
    (fixN lo val y k n).getD j 0 = if j < k ∧ lo.getD j 0 = y ∧ j < n.length then val j else n.getD j 0 := by
  induction k with
  | zero => simp [fixN]
  | succ k ih =>
    simp only [fixN]
    split
    · rename_i hk
      rw [getD_set, fixN_length, ih]
      by_cases hj : j = k
      · subst hj
        by_cases hlen : j < n.length
        · rw [if_pos ⟨rfl, hlen⟩, if_pos ⟨Nat.lt_succ_self j, hk, hlen⟩]
        · rw [if_neg (fun h => hlen h.2), if_neg (fun h => hlen h.2.2), if_neg (fun h => hlen h.2.2)]
      · rw [if_neg (fun h => hj h.1)]
        have e : (j < k + 1) = (j < k) := by apply propext; omega
        simp only [e]
    · rename_i hk
      rw [ih]
      by_cases hj : j = k
      · subst hj
        rw [if_neg (fun h => Nat.lt_irrefl j h.1), if_neg (fun h => hk h.2.1)]
      · have e : (j < k + 1) = (j < k) := by apply propext; omega
        simp only [e]

theorem fixN_noop (lo : List Nat) (val : Nat → Nat) (y k : Nat) (n : List Nat) (h : ∀ j, j < k → lo.getD j 0 ≠ y) :
    fixN lo val y k n = n := by
  induction k with
  | zero => rfl
  | succ k ih =>
    simp only [fixN, if_neg (h k (Nat.lt_succ_self k))]
    exact ih (fun j hj => h j (by omega))

theorem fixLevels_eq (s : LDb) (lo : List Nat) (val : Nat → Nat) (k : Nat) (hh : ∀ nd ∈ s.heap, nd.id ≠ s.blk) :
    fixLevels s lo val k =
      { s with hn := fixN lo val s.blk k s.hn,
               heap := s.heap.map fun nd => { nd with n := fixN lo val nd.id k nd.n } } := by
  induction k with
  | zero =>
    simp only [fixLevels, fixN]
    have : (s.heap.map fun nd => ({ nd with n := nd.n } : LNode)) = s.heap := List.map_id' s.heap
    rw [this]
  | succ k ih =>
    simp only [fixLevels, ih, setLink]
    by_cases hx : lo.getD k 0 = s.blk
    · simp only [hx, if_true, fixN]
      congr 1
      apply List.map_congr_left
      intro nd hnd
      have := hh nd hnd
      rw [if_neg (Ne.symm this)]
    · simp only [if_neg hx, fixN, updNode, List.map_map]
      congr 1
      apply List.map_congr_left
      intro nd _
      simp only [Function.comp]
      by_cases hy : nd.id = lo.getD k 0
      · rw [if_pos hy, if_pos hy.symm]
      · rw [if_neg hy, if_neg (Ne.symm hy)]

theorem setP0_eq (s : LDb) (x v : Nat) (hh : ∀ nd ∈ s.heap, nd.id ≠ 0) :
    setP0 s x v =
      { s with tail := if x = 0 then v else s.tail,
               heap := s.heap.map fun nd => if nd.id = x then { nd with p0 := v } else nd } := by
  by_cases hx : x = 0
  · subst hx
    simp only [setP0, if_true]
    congr 1
    conv => lhs; rw [← List.map_id s.heap]
    apply List.map_congr_left
    intro nd hnd
    simp [hh nd hnd]
  · simp only [setP0, if_neg hx, updNode]

/-! ### splitting lists -/

theorem split_cases {α : Type} {A B pre post : List α} {a b : α} (h : A ++ a :: B = pre ++ b :: post) :
    (∃ mid, A = pre ++ b :: mid ∧ post = mid ++ a :: B) ∨ (pre = A ∧ b = a ∧ post = B) ∨
    (∃ mid, B = mid ++ b :: post ∧ pre = A ++ a :: mid) := by
  rcases List.append_eq_append_iff.1 h with ⟨c, h1, h2⟩ | ⟨c, h1, h2⟩
  · cases c with
    | nil =>
      simp only [List.nil_append, List.cons.injEq] at h2
      right; left
      exact ⟨by simpa using h1, h2.1.symm, h2.2.symm⟩
    | cons c0 c' =>
      simp only [List.cons_append, List.cons.injEq] at h2
      right; right
      exact ⟨c', h2.2, by rw [h1, h2.1]⟩
  · cases c with
    | nil =>
      simp only [List.nil_append, List.cons.injEq] at h2
      right; left
      exact ⟨by simpa using h1.symm, h2.1, h2.2⟩
    | cons c0 c' =>
      simp only [List.cons_append, List.cons.injEq] at h2
      left
      exact ⟨c', by rw [h1, h2.1], h2.2⟩

theorem split_cases2 {α : Type} {A B pre post : List α} {b : α} (h : A ++ B = pre ++ b :: post) :
    (∃ mid, A = pre ++ b :: mid ∧ post = mid ++ B) ∨ (∃ mid, B = mid ++ b :: post ∧ pre = A ++ mid) := by
  rcases List.append_eq_append_iff.1 h with ⟨c, h1, h2⟩ | ⟨c, h1, h2⟩
  · right; exact ⟨c, h2, h1⟩
  · cases c with
    | nil =>
      right
      exact ⟨[], by simpa using h2.symm, by simpa using h1.symm⟩
    | cons c0 c' =>
      simp only [List.cons_append, List.cons.injEq] at h2
      left
      exact ⟨c', by rw [h1, h2.1], h2.2⟩

theorem ids_append (a b : AL) : ids (a ++ b) = ids a ++ ids b := by simp [ids]

theorem ids_cons (x l : Nat) (a : AL) : ids ((x, l) :: a) = x :: ids a := rfl

theorem mem_ids {x : Nat} {a : AL} : x ∈ ids a ↔ ∃ l, (x, l) ∈ a := by
  simp [ids]

theorem lower_eq_iff {A pre mid : AL} {x lx : Nat} (d j : Nat) (hA : A = pre ++ (x, lx) :: mid) (hj : j ≤ lx)
    (hx : x ∉ ids mid) : lowerAt j d A = x ↔ hasLvl j mid = false := by
  have e : lowerAt j d A = lowerAt j x mid := by
    rw [hA, lowerAt_append]; simp only [lowerAt, if_pos hj]
  rw [e]
  constructor
  · intro h
    cases hc : hasLvl j mid with
    | false => rfl
    | true =>
      obtain ⟨l, h1, _⟩ := lowerAt_split_mem j x mid hc
      exfalso; apply hx
      rw [h] at h1
      exact mem_ids.2 ⟨l, h1⟩
  · intro h; exact lowerAt_none j x mid h

theorem lower_ne {A : AL} {x d : Nat} (j : Nat) (hx : x ∉ ids A) (hd : x ≠ d) : lowerAt j d A ≠ x := by
  rcases lowerAt_mem j d A with h | h
  · rw [h]; exact Ne.symm hd
  · intro e; rw [e] at h; exact hx h

theorem Rep.heap_ne_blk {s : LDb} {L : AL} (h : Rep s L) : ∀ nd ∈ s.heap, nd.id ≠ s.blk := by
  intro nd hnd
  obtain ⟨p, hp, he⟩ := List.mem_map.1 (h.heap_ids nd hnd)
  rw [← he]; exact (h.idok p hp).2.1

theorem Rep.heap_ne_zero {s : LDb} {L : AL} (h : Rep s L) : ∀ nd ∈ s.heap, nd.id ≠ 0 := by
  intro nd hnd
  obtain ⟨p, hp, he⟩ := List.mem_map.1 (h.heap_ids nd hnd)
  rw [← he]; exact (h.idok p hp).1

theorem Rep.lower_blk_iff {s : LDb} {L A : AL} (h : Rep s L) (hA : ∀ p ∈ A, p ∈ L) (j : Nat) :
    lowerAt j s.blk A = s.blk ↔ hasLvl j A = false := by
  constructor
  · intro he
    cases hc : hasLvl j A with
    | false => rfl
    | true =>
      obtain ⟨l, this, _⟩ := lowerAt_split_mem j s.blk A hc
      exact absurd he (h.idok _ (hA _ this)).2.1
  · intro hc; exact lowerAt_none j _ A hc

/-! ### insertion -/

theorem Rep.insert_eq {s : LDb} {A B : AL} (h : Rep s (A ++ B)) (before : Nat → Bool)
    (hA : ∀ p ∈ A, before p.1 = true) (hB : ∀ p ∈ B, before p.1 = false) (nid l : Nat) :
    insert s before nid l =
      { blk := s.blk,
        hn := fixN ((List.range (l + 1)).map (lowerAt · s.blk A)) (fun _ => nid) s.blk (l + 1) s.hn,
        tail := if nextAt 0 B = 0 then nid else s.tail,
        lcnt := bump s.lcnt l,
        heap := canonNode s.blk A nid l B :: s.heap.map fun nd =>
          { (if nd.id = nextAt 0 B then { nd with p0 := nid } else nd : LNode) with
            n := fixN ((List.range (l + 1)).map (lowerAt · s.blk A)) (fun _ => nid) nd.id (l + 1) nd.n } } := by
  simp only [insert, h.findBounds_eq rfl before hA hB l, getD_map_range', if_pos (Nat.succ_pos l)]
  rw [setP0_eq s _ _ h.heap_ne_zero, fixLevels_eq]
  · simp only [List.map_map, canonNode, lowerAt_zero]
    congr 2
    apply List.map_congr_left
    intro nd _
    simp only [Function.comp]
    split <;> rfl
  · intro nd hnd
    simp only [List.mem_map] at hnd
    obtain ⟨nd0, h0, rfl⟩ := hnd
    have := h.heap_ne_blk nd0 h0
    split <;> exact this

theorem node?_cons_map (s : LDb) (nb : LNode) (g : LNode → LNode) (hg : ∀ nd, (g nd).id = nd.id) (x : Nat)
    (hx : nb.id ≠ x) (blk : Nat) (hn : List Nat) (tail : Nat) (lcnt : List Nat) :
    node? ⟨blk, hn, tail, lcnt, nb :: s.heap.map g⟩ x = (node? s x).map g := by
  simp only [node?, List.find?_cons, decide_eq_false hx, List.find?_map]
  congr 2
  funext nd
  simp [hg]

theorem nextAt_zero_cons (x l : Nat) (r : AL) : nextAt 0 ((x, l) :: r) = x := by simp [nextAt]

theorem nodup_mid {pre mid : AL} {x lx : Nat} (h : (ids (pre ++ (x, lx) :: mid)).Nodup) : x ∉ ids mid ∧ x ∉ ids pre := by
  rw [ids_append, ids_cons, List.nodup_append] at h
  obtain ⟨_, h2, h3⟩ := h
  exact ⟨(List.nodup_cons.1 h2).1, fun hx => h3 x hx x (by simp) rfl⟩

theorem ins_link (j l nid v x : Nat) (mid B : AL) (hiff : j < l + 1 → (v = x ↔ hasLvl j mid = false)) :
    (if j < l + 1 ∧ (if j < l + 1 then v else 0) = x then nid else nextAt j (mid ++ B)) =
      nextAt j (mid ++ (nid, l) :: B) := by
  rw [nextAt_append, nextAt_append]
  by_cases hjl : j < l + 1
  · simp only [hjl, if_true, true_and]
    cases hc : hasLvl j mid with
    | false =>
      rw [if_pos ((hiff hjl).2 hc)]
      simp only [Bool.false_eq_true, if_false, nextAt, if_pos (show j ≤ l by omega)]
    | true =>
      have : ¬ v = x := by intro e; rw [(hiff hjl).1 e] at hc; exact absurd hc (by simp)
      rw [if_neg this]
      simp only [if_true]
  · rw [if_neg (fun hh => hjl hh.1)]
    simp only [nextAt, if_neg (show ¬ j ≤ l by omega)]

theorem Rep.insert {s : LDb} {A B : AL} (h : Rep s (A ++ B)) (before : Nat → Bool)
    (hA : ∀ p ∈ A, before p.1 = true) (hB : ∀ p ∈ B, before p.1 = false) (nid l : Nat)
    (hn0 : nid ≠ 0) (hnb : nid ≠ s.blk) (hfresh : nid ∉ ids (A ++ B)) (hl : l < SLEVELS) :
    Rep (insert s before nid l) (A ++ (nid, l) :: B) := by
  rw [h.insert_eq before hA hB nid l]
  have hnd := h.nodup
  rw [ids_append, List.nodup_append] at hnd
  obtain ⟨hndA, hndB, hdisj⟩ := hnd
  have hfA : nid ∉ ids A := fun hx => hfresh (by rw [ids_append]; simp [hx])
  have hfB : nid ∉ ids B := fun hx => hfresh (by rw [ids_append]; simp [hx])
  have hAL : ∀ p ∈ A, p ∈ A ++ B := fun p hp => by simp [hp]
  have hBL : ∀ p ∈ B, p ∈ A ++ B := fun p hp => by simp [hp]
  have hgid : ∀ nd : LNode, ({ (if nd.id = nextAt 0 B then { nd with p0 := nid } else nd : LNode) with
      n := fixN ((List.range (l + 1)).map (lowerAt · s.blk A)) (fun _ => nid) nd.id (l + 1) nd.n } : LNode).id = nd.id := by
    intro nd; split <;> rfl
  have hlo : ∀ j, j < l + 1 → ((List.range (l + 1)).map (lowerAt · s.blk A)).getD j 0 = lowerAt j s.blk A := by
    intro j hj; rw [getD_map_range', if_pos hj]
  refine ⟨h.blk_ne, ?_, ?_, ?_, ?_, ?_, ?_, ?_, ?_⟩
  · -- nodup
    rw [ids_append, ids_cons, List.nodup_append]
    refine ⟨hndA, List.nodup_cons.2 ⟨hfB, hndB⟩, ?_⟩
    intro a ha b hb
    rcases List.mem_cons.1 hb with rfl | hb
    · intro e; exact hfA (e ▸ ha)
    · exact hdisj a ha b hb
  · -- idok
    intro p hp
    rcases List.mem_append.1 hp with hp | hp
    · exact h.idok p (hAL p hp)
    · rcases List.mem_cons.1 hp with rfl | hp
      · exact ⟨hn0, hnb, hl⟩
      · exact h.idok p (hBL p hp)
  · -- heap_nodup
    simp only [List.map_cons, List.map_map, canonNode]
    have e : (s.heap.map ((fun nd : LNode => nd.id) ∘ fun nd => ({ (if nd.id = nextAt 0 B then { nd with p0 := nid } else nd : LNode) with
        n := fixN ((List.range (l + 1)).map (lowerAt · s.blk A)) (fun _ => nid) nd.id (l + 1) nd.n } : LNode))) = s.heap.map (·.id) := by
      apply List.map_congr_left; intro nd _; exact hgid nd
    rw [e]
    refine List.nodup_cons.2 ⟨?_, h.heap_nodup⟩
    intro hm
    obtain ⟨nd, hnd, he⟩ := List.mem_map.1 hm
    exact hfresh (he ▸ h.heap_ids nd hnd)
  · -- heap_ids
    intro nd hnd
    rcases List.mem_cons.1 hnd with rfl | hnd
    · rw [ids_append, ids_cons]; simp [canonNode]
    · obtain ⟨nd0, h0, rfl⟩ := List.mem_map.1 hnd
      rw [hgid nd0]
      have := h.heap_ids nd0 h0
      rw [ids_append] at this ⊢
      rw [ids_cons]
      rcases List.mem_append.1 this with h1 | h1
      · simp [h1]
      · simp [h1]
  · -- node
    intro pre x lx post hs
    rcases split_cases hs with ⟨mid, hA', hpost⟩ | ⟨hpre, hb, hpost⟩ | ⟨mid, hB', hpre⟩
    · -- x in A
      have hsOld : A ++ B = pre ++ (x, lx) :: (mid ++ B) := by rw [hA']; simp
      have hxA : x ∈ ids A := by rw [hA', ids_append, ids_cons]; simp
      have hxn : nid ≠ x := fun e => hfA (e ▸ hxA)
      have hxmid : x ∉ ids mid := (nodup_mid (hA' ▸ hndA)).1
      have hxu : x ≠ nextAt 0 B := by
        intro e
        have hx0 := (h.ne_blk hsOld).1
        rw [e] at hx0
        obtain ⟨l', hm, _⟩ := nextAt_mem 0 B ((h.nextAt_ne_zero hBL 0).1 hx0)
        exact hdisj x hxA (nextAt 0 B) (mem_ids.2 ⟨l', hm⟩) e
      rw [node?_cons_map s _ _ hgid x hxn, h.node pre x lx (mid ++ B) hsOld]
      simp only [Option.map_some, canonNode, if_neg hxu, hpost]
      congr 2
      apply ext_getD
      · simp [fixN_length]
      · intro j hj
        simp only [fixN_length, List.length_map, List.length_range] at hj
        simp only [fixN_getD, getD_map_range', List.length_map, List.length_range, hj, if_true, and_true]
        exact ins_link j l nid _ x mid B (fun _ => lower_eq_iff s.blk j hA' (by omega) hxmid)
    · -- the new node
      subst hpre hpost
      simp only [Prod.mk.injEq] at hb
      obtain ⟨rfl, rfl⟩ := hb
      simp [node?, canonNode]
    · -- x in B
      have hsOld : A ++ B = (A ++ mid) ++ (x, lx) :: post := by rw [hB']; simp
      have hxB : x ∈ ids B := by rw [hB', ids_append, ids_cons]; simp
      have hxA : x ∉ ids A := fun hx => hdisj x hx x hxB rfl
      have hxn : nid ≠ x := fun e => hfB (e ▸ hxB)
      have hxb := (h.ne_blk hsOld).2.1
      rw [node?_cons_map s _ _ hgid x hxn, h.node (A ++ mid) x lx post hsOld]
      have hnoop : fixN ((List.range (l + 1)).map (lowerAt · s.blk A)) (fun _ => nid) x (l + 1)
          ((List.range (lx + 1)).map (nextAt · post)) = (List.range (lx + 1)).map (nextAt · post) := by
        apply fixN_noop
        intro j hj
        rw [hlo j hj]
        exact lower_ne j hxA hxb
      cases mid with
      | nil =>
        have hu : x = nextAt 0 B := by rw [hB']; simp [nextAt]
        simp only [Option.map_some, canonNode, if_pos hu, hnoop, hpre, List.append_nil, lastId_append, lastId]
      | cons q mid' =>
        obtain ⟨y, ly⟩ := q
        have hu : x ≠ nextAt 0 B := by
          rw [hB']; simp only [List.cons_append, nextAt_zero_cons]
          intro e
          rw [hB', List.cons_append, ids_cons, ids_append, ids_cons] at hndB
          have := (List.nodup_cons.1 hndB).1
          apply this; rw [← e]; simp
        simp only [Option.map_some, canonNode, if_neg hu, hnoop, hpre, lastId_append, lastId]
  · -- head links
    apply ext_getD
    · simp [fixN_length, h.hn]
    · intro j hj
      simp only [fixN_length, h.hn, List.length_map, List.length_range] at hj
      simp only [fixN_getD, h.hn, getD_map_range', List.length_map, List.length_range, hj, if_true, and_true]
      exact ins_link j l nid _ s.blk A B (fun _ => h.lower_blk_iff hAL j)
  · -- tail
    left
    simp only [lastId_append, lastId]
    cases B with
    | nil => simp [nextAt, lastId]
    | cons q B' =>
      obtain ⟨y, ly⟩ := q
      have hy : y ≠ 0 := (h.idok (y, ly) (by simp)).1
      rw [nextAt_zero_cons, if_neg hy]
      rcases h.tail with ht | ⟨ht, _⟩
      · rw [ht, lastId_append]; simp [lastId]
      · simp at ht
  · -- counters
    apply ext_getD
    · simp [bump, h.lcnt]
    · intro j hj
      simp only [bump, List.length_set, h.lcnt, List.length_map, List.length_range] at hj
      simp only [bump]
      simp only [getD_set, h.lcnt, getD_map_range', List.length_map, List.length_range, hj, hl, if_true, and_true,
        cnt_append, cnt_cons]
      by_cases hjl : j = l
      · subst hjl; simp only [if_true]; omega
      · rw [if_neg hjl, if_neg (Ne.symm hjl)]; omega

/-! ### removal -/

theorem node?_filter_map (s : LDb) (g : LNode → LNode) (hg : ∀ nd, (g nd).id = nd.id) (x t : Nat) (hx : x ≠ t)
    (blk : Nat) (hn : List Nat) (tail : Nat) (lcnt : List Nat) :
    node? ⟨blk, hn, tail, lcnt, (s.heap.map g).filter (fun nd => nd.id ≠ t)⟩ x = (node? s x).map g := by
  simp only [node?, List.find?_filter, List.find?_map]
  congr 2
  funext nd
  simp only [Function.comp, hg]
  by_cases h : nd.id = x
  · simp [h, hx]
  · simp [h]

theorem rm_link (j lt t v x : Nat) (mid B : AL) (hiff : j < lt + 1 → (v = x ↔ hasLvl j mid = false)) :
    (if j < lt + 1 ∧ (if j < lt + 1 then v else 0) = x then (if j < lt + 1 then nextAt j B else 0)
      else nextAt j (mid ++ (t, lt) :: B)) = nextAt j (mid ++ B) := by
  rw [nextAt_append, nextAt_append]
  by_cases hjl : j < lt + 1
  · simp only [hjl, if_true, true_and]
    cases hc : hasLvl j mid with
    | false =>
      rw [if_pos ((hiff hjl).2 hc)]
      simp only [Bool.false_eq_true, if_false]
    | true =>
      have : ¬ v = x := by intro e; rw [(hiff hjl).1 e] at hc; exact absurd hc (by simp)
      rw [if_neg this]
      simp only [if_true]
  · rw [if_neg (fun hh => hjl hh.1)]
    simp only [nextAt, if_neg (show ¬ j ≤ lt by omega)]

/-- the search of `_lx_del_sblk_lw` stops in front of `t` -/
theorem Rep.remove_before {s : LDb} {A B : AL} {t lt : Nat} (h : Rep s (A ++ (t, lt) :: B)) :
    ((order s).take ((order s).idxOf t)) = ids A := by
  have hnd := h.nodup
  have htA : t ∉ ids A := (nodup_mid hnd).2
  rw [h.order_eq, ids_append, ids_cons, List.idxOf_append, if_neg htA, List.idxOf_cons_self, Nat.zero_add]
  exact List.take_left

theorem Rep.remove_eq {s : LDb} {A B : AL} {t lt : Nat} (h : Rep s (A ++ (t, lt) :: B)) :
    remove s t =
      { blk := s.blk,
        hn := fixN ((List.range (lt + 1)).map (lowerAt · s.blk A)) (fun i => ((List.range (lt + 1)).map (nextAt · B)).getD i 0) s.blk (lt + 1) s.hn,
        tail := if nextAt 0 B = 0 then lastId s.blk A else s.tail,
        lcnt := unbump s.lcnt lt,
        heap := (s.heap.map fun nd =>
          (if nd.id = nextAt 0 B then
            { nd with n := fixN ((List.range (lt + 1)).map (lowerAt · s.blk A)) (fun i => ((List.range (lt + 1)).map (nextAt · B)).getD i 0) nd.id (lt + 1) nd.n, p0 := lastId s.blk A }
           else { nd with n := fixN ((List.range (lt + 1)).map (lowerAt · s.blk A)) (fun i => ((List.range (lt + 1)).map (nextAt · B)).getD i 0) nd.id (lt + 1) nd.n } : LNode)).filter
          (fun nd => nd.id ≠ t) } := by
  have hnd := h.nodup
  rw [ids_append, ids_cons, List.nodup_append] at hnd
  obtain ⟨_, hndB, hdisj⟩ := hnd
  have hA : ∀ p ∈ A, (ids A).contains p.1 = true := by
    intro p hp; simp only [List.contains_eq_mem, decide_eq_true_eq]; exact mem_ids.2 ⟨p.2, hp⟩
  have hB : ∀ p ∈ (t, lt) :: B, (ids A).contains p.1 = false := by
    intro p hp
    simp only [List.contains_eq_mem, decide_eq_false_iff_not]
    intro hx
    exact hdisj p.1 hx p.1 (by rw [← ids_cons]; exact mem_ids.2 ⟨p.2, hp⟩) rfl
  have hfb := h.findBounds_eq rfl (fun x => (ids A).contains x) hA hB lt
  have hnode := h.node A t lt B rfl
  simp only [remove, h.remove_before, h.lvlOf_eq (pre := A) (post := B) rfl, hfb, nextAt_zero_cons, ne_eq, not_true_eq_false,
    if_false, hnode, canonNode]
  rw [fixLevels_eq _ _ _ _ h.heap_ne_blk, setP0_eq]
  · simp only [List.map_map, getD_map_range', if_pos (Nat.succ_pos lt)]
    congr 2
  · intro nd hnd
    obtain ⟨nd0, h0, rfl⟩ := List.mem_map.1 hnd
    exact h.heap_ne_zero nd0 h0

theorem Rep.remove {s : LDb} {A B : AL} {t lt : Nat} (h : Rep s (A ++ (t, lt) :: B)) : Rep (remove s t) (A ++ B) := by
  rw [h.remove_eq]
  have hnd := h.nodup
  have htA : t ∉ ids A := (nodup_mid hnd).2
  have htB : t ∉ ids B := (nodup_mid hnd).1
  rw [ids_append, ids_cons, List.nodup_append] at hnd
  obtain ⟨hndA, hndtB, hdisj⟩ := hnd
  have hndB := (List.nodup_cons.1 hndtB).2
  have hdisjAB : ∀ a ∈ ids A, ∀ b ∈ ids B, a ≠ b := fun a ha b hb => hdisj a ha b (by simp [hb])
  have hAL : ∀ p ∈ A, p ∈ A ++ (t, lt) :: B := fun p hp => by simp [hp]
  have hBL : ∀ p ∈ B, p ∈ A ++ (t, lt) :: B := fun p hp => by simp [hp]
  have hlt : lt < SLEVELS := (h.idok (t, lt) (by simp)).2.2
  have hgid : ∀ nd : LNode, ((if nd.id = nextAt 0 B then
            { nd with n := fixN ((List.range (lt + 1)).map (lowerAt · s.blk A)) (fun i => ((List.range (lt + 1)).map (nextAt · B)).getD i 0) nd.id (lt + 1) nd.n, p0 := lastId s.blk A }
           else { nd with n := fixN ((List.range (lt + 1)).map (lowerAt · s.blk A)) (fun i => ((List.range (lt + 1)).map (nextAt · B)).getD i 0) nd.id (lt + 1) nd.n } : LNode)).id = nd.id := by
    intro nd; split <;> rfl
  have hlo : ∀ j, j < lt + 1 → ((List.range (lt + 1)).map (lowerAt · s.blk A)).getD j 0 = lowerAt j s.blk A := by
    intro j hj; rw [getD_map_range', if_pos hj]
  refine ⟨h.blk_ne, ?_, ?_, ?_, ?_, ?_, ?_, ?_, ?_⟩
  · -- nodup
    rw [ids_append, List.nodup_append]
    exact ⟨hndA, hndB, hdisjAB⟩
  · -- idok
    intro p hp
    rcases List.mem_append.1 hp with hp | hp
    · exact h.idok p (hAL p hp)
    · exact h.idok p (hBL p hp)
  · -- heap_nodup
    refine List.Pairwise.sublist ((List.filter_sublist).map _) ?_
    rw [List.map_map]
    have e : (s.heap.map ((fun nd : LNode => nd.id) ∘ fun nd => ((if nd.id = nextAt 0 B then
            { nd with n := fixN ((List.range (lt + 1)).map (lowerAt · s.blk A)) (fun i => ((List.range (lt + 1)).map (nextAt · B)).getD i 0) nd.id (lt + 1) nd.n, p0 := lastId s.blk A }
           else { nd with n := fixN ((List.range (lt + 1)).map (lowerAt · s.blk A)) (fun i => ((List.range (lt + 1)).map (nextAt · B)).getD i 0) nd.id (lt + 1) nd.n } : LNode)))) = s.heap.map (·.id) := by
      apply List.map_congr_left; intro nd _; exact hgid nd
    rw [e]
    exact h.heap_nodup
  · -- heap_ids
    intro nd hnd
    obtain ⟨hm, hne⟩ := List.mem_filter.1 hnd
    obtain ⟨nd0, h0, rfl⟩ := List.mem_map.1 hm
    rw [hgid nd0] at hne ⊢
    have := h.heap_ids nd0 h0
    rw [ids_append, ids_cons] at this
    rw [ids_append]
    rcases List.mem_append.1 this with h1 | h1
    · simp [h1]
    · rcases List.mem_cons.1 h1 with h1 | h1
      · simp [h1] at hne
      · simp [h1]
  · -- node
    intro pre x lx post hs
    rcases split_cases2 hs with ⟨mid, hA', hpost⟩ | ⟨mid, hB', hpre⟩
    · -- x in A
      have hsOld : A ++ (t, lt) :: B = pre ++ (x, lx) :: (mid ++ (t, lt) :: B) := by rw [hA']; simp
      have hxA : x ∈ ids A := by rw [hA', ids_append, ids_cons]; simp
      have hxt : x ≠ t := fun e => htA (e ▸ hxA)
      have hxmid : x ∉ ids mid := (nodup_mid (hA' ▸ hndA)).1
      have hxu : x ≠ nextAt 0 B := by
        intro e
        have hx0 := (h.ne_blk hsOld).1
        rw [e] at hx0
        obtain ⟨l', hm, _⟩ := nextAt_mem 0 B ((h.nextAt_ne_zero hBL 0).1 hx0)
        exact hdisjAB x hxA (nextAt 0 B) (mem_ids.2 ⟨l', hm⟩) e
      rw [node?_filter_map s _ hgid x t hxt, h.node pre x lx _ hsOld]
      simp only [Option.map_some, canonNode, if_neg hxu, hpost]
      congr 2
      apply ext_getD
      · simp [fixN_length]
      · intro j hj
        simp only [fixN_length, List.length_map, List.length_range] at hj
        simp only [fixN_getD, getD_map_range', List.length_map, List.length_range, hj, if_true, and_true]
        exact rm_link j lt t _ x mid B (fun _ => lower_eq_iff s.blk j hA' (by omega) hxmid)
    · -- x in B
      have hsOld : A ++ (t, lt) :: B = (A ++ (t, lt) :: mid) ++ (x, lx) :: post := by rw [hB']; simp
      have hxB : x ∈ ids B := by rw [hB', ids_append, ids_cons]; simp
      have hxA : x ∉ ids A := fun hx => hdisjAB x hx x hxB rfl
      have hxt : x ≠ t := fun e => htB (e ▸ hxB)
      have hxb := (h.ne_blk hsOld).2.1
      rw [node?_filter_map s _ hgid x t hxt, h.node _ x lx post hsOld]
      have hnoop : fixN ((List.range (lt + 1)).map (lowerAt · s.blk A)) (fun i => ((List.range (lt + 1)).map (nextAt · B)).getD i 0)
          x (lt + 1) ((List.range (lx + 1)).map (nextAt · post)) = (List.range (lx + 1)).map (nextAt · post) := by
        apply fixN_noop
        intro j hj
        rw [hlo j hj]
        exact lower_ne j hxA hxb
      cases mid with
      | nil =>
        have hu : x = nextAt 0 B := by rw [hB']; simp [nextAt]
        simp only [Option.map_some, canonNode, if_pos hu, hnoop, hpre, List.append_nil]
      | cons q mid' =>
        obtain ⟨y, ly⟩ := q
        have hu : x ≠ nextAt 0 B := by
          rw [hB']; simp only [List.cons_append, nextAt_zero_cons]
          intro e
          rw [hB', List.cons_append, ids_cons, ids_append, ids_cons] at hndB
          have := (List.nodup_cons.1 hndB).1
          apply this; rw [← e]; simp
        simp only [Option.map_some, canonNode, if_neg hu, hnoop, hpre, lastId_append, lastId]
  · -- head links
    apply ext_getD
    · simp [fixN_length, h.hn]
    · intro j hj
      simp only [fixN_length, h.hn, List.length_map, List.length_range] at hj
      simp only [fixN_getD, h.hn, getD_map_range', List.length_map, List.length_range, hj, if_true, and_true]
      exact rm_link j lt t _ s.blk A B (fun _ => h.lower_blk_iff hAL j)
  · -- tail
    left
    cases B with
    | nil => simp [nextAt]
    | cons q B' =>
      obtain ⟨y, ly⟩ := q
      have hy : y ≠ 0 := (h.idok (y, ly) (by simp)).1
      rw [nextAt_zero_cons, if_neg hy]
      rcases h.tail with ht | ⟨ht, _⟩
      · rw [ht, lastId_append, lastId_append]; simp [lastId]
      · simp at ht
  · -- counters
    apply ext_getD
    · simp [unbump, h.lcnt]
    · intro j hj
      simp only [unbump, List.length_set, h.lcnt, List.length_map, List.length_range] at hj
      simp only [unbump, getD_set, h.lcnt, getD_map_range', List.length_map, List.length_range, hj, hlt, if_true, and_true,
        cnt_append, cnt_cons]
      by_cases hjl : j = lt
      · subst hjl; simp only [if_true]; omega
      · rw [if_neg hjl, if_neg (Ne.symm hjl)]; omega

/-! ### the property as stated on the stored links -/

/-- **The link clause of C06 for one database**, stated on the stored fields only. -/
structure LinkInv (s : LDb) : Prop where
  blk_ne : s.blk ≠ 0
  /-- block numbers are unique -/
  heap_nodup : (s.heap.map (·.id)).Nodup
  /-- a node is not block 0 nor the database block, its level is below `SLEVELS`, it stores links `0..lvl` -/
  node_ok : ∀ nd ∈ s.heap, nd.id ≠ 0 ∧ nd.id ≠ s.blk ∧ nd.lvl < SLEVELS ∧ nd.n.length = nd.lvl + 1
  hn_len : s.hn.length = SLEVELS
  lcnt_len : s.lcnt.length = SLEVELS
  /-- the level-0 chain visits every node exactly once -/
  order_perm : (order s).Perm (s.heap.map (·.id))
  /-- for every level `i`, following `n[i]` from the head yields exactly the nodes of level `≥ i` in level-0
      order, and the last of them has a 0 link -/
  level : ∀ i, i < SLEVELS → chainAt s i = (order s).filter (fun x => i ≤ lvlOf s x) ∧
    ∀ x, (chainAt s i).getLast? = some x → link s x i = 0
  /-- `p0` of every node is its level-0 predecessor, the database block for the first -/
  back : ∀ p ∈ (order s).zip (s.blk :: order s), p0Of s p.1 = p.2
  /-- the tail link is the last node; of an empty chain it is the database block (or 0 before the first insertion) -/
  tail : s.tail = (order s).getLast?.getD s.blk ∨ (order s = [] ∧ s.tail = 0)
  /-- `lcnt[i]` = number of nodes whose level is `i` -/
  counts : ∀ i, i < SLEVELS → s.lcnt.getD i 0 = ((order s).filter (fun x => lvlOf s x = i)).length
  /-- the head level (`_sblk_at2`) is the highest populated level -/
  head : headLvl s = (levels s).foldr max 0

theorem find_of_nodup (l : List LNode) (hnd : (l.map (·.id)).Nodup) (nd : LNode) (h : nd ∈ l) :
    l.find? (fun a => a.id = nd.id) = some nd := by
  induction l with
  | nil => simp at h
  | cons a r ih =>
    simp only [List.map_cons, List.nodup_cons] at hnd
    by_cases ha : a.id = nd.id
    · rcases List.mem_cons.1 h with rfl | hr
      · simp
      · exfalso; apply hnd.1; rw [ha]; exact List.mem_map.2 ⟨nd, hr, rfl⟩
    · have hne : nd ≠ a := fun e => ha (e ▸ rfl)
      rcases List.mem_cons.1 h with e | hr
      · exact absurd e hne
      · simp only [List.find?_cons, ha, decide_false]
        exact ih hnd.2 hr

theorem node?_of_mem {s : LDb} (hnd : (s.heap.map (·.id)).Nodup) {nd : LNode} (h : nd ∈ s.heap) : node? s nd.id = some nd :=
  find_of_nodup s.heap hnd nd h

theorem zip_pred (S : AL) (d : Nat) (p : Nat × Nat) (hp : p ∈ (ids S).zip (d :: ids S)) :
    ∃ pre x l post, S = pre ++ (x, l) :: post ∧ p = (x, lastId d pre) := by
  induction S generalizing d with
  | nil => simp [ids] at hp
  | cons q r ih =>
    obtain ⟨y, ly⟩ := q
    simp only [ids_cons, List.zip_cons_cons, List.mem_cons] at hp
    rcases hp with rfl | hp
    · exact ⟨[], y, ly, r, rfl, rfl⟩
    · obtain ⟨pre, x, l, post, h1, h2⟩ := ih y hp
      exact ⟨(y, ly) :: pre, x, l, post, by rw [h1]; rfl, by rw [h2]; rfl⟩

theorem zip_mem (pre post : AL) (x l d : Nat) :
    (x, lastId d pre) ∈ (ids (pre ++ (x, l) :: post)).zip (d :: ids (pre ++ (x, l) :: post)) := by
  induction pre generalizing d with
  | nil => simp [ids, lastId]
  | cons q r ih =>
    obtain ⟨y, ly⟩ := q
    simp only [List.cons_append, ids_cons, List.zip_cons_cons, List.mem_cons, lastId]
    right; exact ih y

theorem Rep.filter_ids {s : LDb} {L : AL} (h : Rep s L) (q : Nat → Bool) :
    (ids L).filter (fun x => q (lvlOf s x)) = ids (L.filter fun p => q p.2) := by
  simp only [ids, List.filter_map]
  congr 1
  apply List.filter_congr
  intro p hp
  obtain ⟨pre, post, hs⟩ := mem_split hp
  simp only [Function.comp, h.lvlOf_eq (x := p.1) (l := p.2) hs]

/-- (A) the threading of a list satisfies the link clause -/
theorem Rep.linkInv {s : LDb} {L : AL} (h : Rep s L) : LinkInv s := by
  have hord := h.order_eq
  refine ⟨h.blk_ne, h.heap_nodup, ?_, by simp [h.hn], by simp [h.lcnt], ?_, ?_, ?_, ?_, ?_, ?_⟩
  · intro nd hnd
    obtain ⟨l, hm⟩ := mem_ids.1 (h.heap_ids nd hnd)
    obtain ⟨pre, post, hs⟩ := mem_split hm
    have h1 := h.node pre nd.id l post hs
    rw [node?_of_mem h.heap_nodup hnd] at h1
    have h2 := h.ne_blk hs
    simp only [Option.some.injEq] at h1
    rw [h1]
    simp [canonNode, h2.1, h2.2.1, h2.2.2]
  · rw [hord]
    apply (List.perm_ext_iff_of_nodup h.nodup h.heap_nodup).2
    intro a
    constructor
    · intro ha
      obtain ⟨l, hm⟩ := mem_ids.1 ha
      obtain ⟨pre, post, hs⟩ := mem_split hm
      have := node?_mem (h.node pre a l post hs)
      exact List.mem_map.2 ⟨_, this.1, this.2⟩
    · intro ha
      obtain ⟨nd, hnd, rfl⟩ := List.mem_map.1 ha
      exact h.heap_ids nd hnd
  · intro i _
    constructor
    · rw [h.chainAt_eq, hord, h.filter_ids (fun l => decide (i ≤ l))]
    · intro x hx
      rw [h.chainAt_eq] at hx
      have hlow : lowerAt i s.blk L = x := by rw [lowerAt_eq_last, hx]; rfl
      have hh : hasLvl i L = true := by
        cases hc : hasLvl i L with
        | true => rfl
        | false =>
          have : L.filter (fun p => decide (i ≤ p.2)) = [] := by
            apply List.filter_eq_nil_iff.2
            intro p hp
            simp only [hasLvl, List.any_eq_false] at hc
            exact hc p hp
          rw [this] at hx; simp [ids] at hx
      obtain ⟨P, l, A2, h1, h2, h3⟩ := lowerAt_split i s.blk L hh
      rw [hlow] at h1
      rw [h.link_node h1 i, if_pos h2, nextAt_none i A2 h3]
  · intro p hp
    rw [hord] at hp
    obtain ⟨pre, x, l, post, h1, rfl⟩ := zip_pred L s.blk p hp
    exact h.p0Of_eq h1
  · rw [hord]
    rcases h.tail with ht | ⟨h1, h2⟩
    · left; rw [ht, lastId_getLast]
    · right; exact ⟨by rw [h1]; rfl, h2⟩
  · intro i hi
    rw [h.lcnt, getD_map_range', if_pos hi, hord, h.filter_ids (fun l => decide (l = i))]
    simp [cnt, ids]
  · rw [h.headLvl_eq, h.levels_eq]; rfl

/-- the abstract list read off the links -/
def absList (s : LDb) : AL := (order s).map fun x => (x, lvlOf s x)

theorem ids_map_lvl (s : LDb) (o : List Nat) : ids (o.map fun x => (x, lvlOf s x)) = o := by
  induction o with
  | nil => rfl
  | cons a r ih => simp only [List.map_cons, ids_cons, ih]

theorem ids_map_filter (s : LDb) (o : List Nat) (q : Nat → Bool) :
    ids ((o.map fun x => (x, lvlOf s x)).filter fun p => q p.2) = o.filter fun y => q (lvlOf s y) := by
  induction o with
  | nil => rfl
  | cons a r ih =>
    simp only [List.map_cons, List.filter_cons]
    cases q (lvlOf s a) with
    | true => simp only [if_true, ids_cons, ih]
    | false => simp only [Bool.false_eq_true, if_false, ih]

theorem ids_absList (s : LDb) : ids (absList s) = order s := ids_map_lvl s _

theorem follow_link (s : LDb) (i : Nat) : ∀ (a : List Nat) (fuel start x y : Nat) (b : List Nat),
    follow s i fuel start = a ++ x :: y :: b → link s x i = y := by
  intro a
  induction a with
  | nil =>
    intro fuel start x y b h
    cases fuel with
    | zero => simp [follow] at h
    | succ f =>
      simp only [follow] at h
      split at h
      · simp at h
      · simp only [List.nil_append, List.cons.injEq] at h
        obtain ⟨rfl, h2⟩ := h
        cases f with
        | zero => simp [follow] at h2
        | succ f' =>
          simp only [follow] at h2
          split at h2
          · simp at h2
          · simp only [List.cons.injEq] at h2; exact h2.1
  | cons a0 a' ih =>
    intro fuel start x y b h
    cases fuel with
    | zero => simp [follow] at h
    | succ f =>
      simp only [follow] at h
      split at h
      · simp at h
      · simp only [List.cons_append, List.cons.injEq] at h
        exact ih f _ x y b h.2

theorem follow_head (s : LDb) (i f z : Nat) : (follow s i (f + 1) z).head?.getD 0 = z := by
  simp only [follow]
  split
  · rename_i h; simp [h]
  · simp

theorem map_split {α β : Type} (g : α → β) (o : List α) (pre : List β) (b : β) (post : List β)
    (h : o.map g = pre ++ b :: post) : ∃ o1 a o2, o = o1 ++ a :: o2 ∧ o1.map g = pre ∧ g a = b ∧ o2.map g = post := by
  obtain ⟨o1, o2', h1, h2, h3⟩ := List.map_eq_append_iff.1 h
  cases o2' with
  | nil => simp at h3
  | cons a o2 =>
    simp only [List.map_cons, List.cons.injEq] at h3
    exact ⟨o1, a, o2, h1, h2, h3.1, h3.2⟩

/-- (B) a state satisfying the link clause is the threading of the list read off its links -/
theorem LinkInv.rep {s : LDb} (h : LinkInv s) : Rep s (absList s) := by
  have hond : (order s).Nodup := (h.order_perm.nodup_iff).2 h.heap_nodup
  have hnode : ∀ x ∈ order s, ∃ nd, nd ∈ s.heap ∧ nd.id = x ∧ node? s x = some nd := by
    intro x hx
    obtain ⟨nd, hnd, he⟩ := List.mem_map.1 ((h.order_perm.mem_iff).1 hx)
    exact ⟨nd, hnd, he, he ▸ node?_of_mem h.heap_nodup hnd⟩
  refine ⟨h.blk_ne, by rw [ids_absList]; exact hond, ?_, h.heap_nodup, ?_, ?_, ?_, ?_, ?_⟩
  · intro p hp
    obtain ⟨x, hx, rfl⟩ := List.mem_map.1 hp
    obtain ⟨nd, hnd, he, hn⟩ := hnode x hx
    have := h.node_ok nd hnd
    simp only [lvlOf, hn]
    rw [← he]
    exact ⟨this.1, this.2.1, this.2.2.1⟩
  · intro nd hnd
    rw [ids_absList]
    exact (h.order_perm.mem_iff).2 (List.mem_map.2 ⟨nd, hnd, rfl⟩)
  · -- node
    intro pre x l post hs
    obtain ⟨o1, x', o2, ho, hpre, hx', hpost⟩ := map_split _ _ _ _ _ hs
    simp only [Prod.mk.injEq] at hx'
    obtain ⟨rfl, hl⟩ := hx'
    have hxo : x' ∈ order s := by rw [ho]; simp
    obtain ⟨nd, hnd, he, hn⟩ := hnode x' hxo
    have hok := h.node_ok nd hnd
    have hlv : nd.lvl = l := by rw [← hl]; simp only [lvlOf, hn]
    have hxb : x' ≠ s.blk := he ▸ hok.2.1
    rw [hn]
    have hp0 : nd.p0 = lastId s.blk pre := by
      have := h.back (x', lastId s.blk pre) (by
        have := zip_mem pre post x' l s.blk
        rw [← hs, ids_absList] at this
        exact this)
      simpa [p0Of, hn] using this
    have hn' : nd.n = (List.range (l + 1)).map (nextAt · post) := by
      apply ext_getD
      · simp [hok.2.2.2, hlv]
      · intro j hj
        rw [hok.2.2.2, hlv] at hj
        have hj24 : j < SLEVELS := by have := hok.2.2.1; omega
        rw [getD_map_range', if_pos hj]
        have hlink : link s x' j = nd.n.getD j 0 := by simp only [link, if_neg hxb, hn]
        rw [← hlink]
        obtain ⟨hch, hend⟩ := h.level j hj24
        -- the chain of level j around x'
        have hq : (decide (j ≤ lvlOf s x')) = true := by simp [hl]; omega
        have hT : ids (post.filter fun p => decide (j ≤ p.2)) = o2.filter (fun y => decide (j ≤ lvlOf s y)) := by
          rw [← hpost]; exact ids_map_filter s o2 (fun l => decide (j ≤ l))
        rw [nextAt_eq_head, hT]
        rw [ho, List.filter_append, List.filter_cons, hq, if_pos rfl] at hch
        cases hT' : o2.filter (fun y => decide (j ≤ lvlOf s y)) with
        | nil =>
          rw [hT', ] at hch
          exact hend x' (by rw [hch]; simp)
        | cons y T' =>
          rw [hT'] at hch
          exact follow_link s j _ _ _ x' y T' hch
    cases nd with
    | mk id lvl n p0 =>
      simp only at he hlv hp0 hn'
      simp only [canonNode, he, hlv, hp0, hn']
  · -- head links
    apply ext_getD
    · simp [h.hn_len]
    · intro j hj
      rw [h.hn_len] at hj
      rw [getD_map_range', if_pos hj, nextAt_eq_head]
      have : ids ((absList s).filter fun p => decide (j ≤ p.2)) = (order s).filter (fun y => decide (j ≤ lvlOf s y)) :=
        ids_map_filter s (order s) (fun l => decide (j ≤ l))
      rw [this, ← (h.level j hj).1, chainAt, follow_head]
  · -- tail
    rcases h.tail with ht | ⟨h1, h2⟩
    · left; rw [ht, lastId_getLast, ids_absList]
    · right; exact ⟨by simp [absList, h1], h2⟩
  · -- counters
    apply ext_getD
    · simp [h.lcnt_len]
    · intro j hj
      rw [h.lcnt_len] at hj
      rw [getD_map_range', if_pos hj, h.counts j hj, ← ids_map_filter s (order s) (fun l => decide (l = j))]
      simp [cnt, absList, ids]

theorem linkInv_iff_rep (s : LDb) : LinkInv s ↔ ∃ L, Rep s L :=
  ⟨fun h => ⟨_, h.rep⟩, fun ⟨_, h⟩ => h.linkInv⟩

/-! ### the operations on states that satisfy the link clause -/

theorem rep_empty (blk : Nat) (hb : blk ≠ 0) : Rep (empty blk) [] := by
  refine ⟨hb, by simp [ids], by simp, by simp [empty], by simp [empty], ?_, ?_, Or.inr ⟨rfl, rfl⟩, ?_⟩
  · intro pre x l post hs; simp at hs
  · apply ext_getD
    · simp [empty]
    · intro j hj
      simp only [empty, List.length_replicate] at hj
      rw [getD_map_range', if_pos hj]
      simp [empty, nextAt, List.getD_eq_getElem?_getD, hj]
  · apply ext_getD
    · simp [empty]
    · intro j hj
      simp only [empty, List.length_replicate] at hj
      rw [getD_map_range', if_pos hj]
      simp [empty, cnt, List.getD_eq_getElem?_getD, hj]

theorem split_at (L : AL) (pos : Nat) (t lt : Nat) (h : L[pos]? = some (t, lt)) :
    L = L.take pos ++ (t, lt) :: L.drop (pos + 1) := by
  obtain ⟨hlt, he⟩ := List.getElem?_eq_some_iff.1 h
  conv => lhs; rw [← List.take_append_drop pos L, List.drop_eq_getElem_cons hlt, he]

/-- **insertion keeps the link clause**: at every position, with every level below `SLEVELS` (clamped or not,
    including a level above the current head level), for every block number not in use -/
theorem LinkInv.insertAt {s : LDb} (h : LinkInv s) (pos nid lvl : Nat) (hn0 : nid ≠ 0) (hnb : nid ≠ s.blk)
    (hfresh : nid ∉ order s) (hl : lvl < SLEVELS) :
    LinkInv (insertAt s pos nid lvl) ∧
    order (insertAt s pos nid lvl) = (order s).take pos ++ nid :: (order s).drop pos ∧
    levels (insertAt s pos nid lvl) = (levels s).take pos ++ lvl :: (levels s).drop pos := by
  have hr := h.rep
  have hL : absList s = (absList s).take pos ++ (absList s).drop pos := (List.take_append_drop _ _).symm
  have hidsA : (order s).take pos = ids ((absList s).take pos) := by
    rw [← ids_absList s]; simp [ids]
  have hnd := hr.nodup
  rw [hL, ids_append, List.nodup_append] at hnd
  rw [hL] at hr
  have hA : ∀ p ∈ (absList s).take pos, ((order s).take pos).contains p.1 = true := by
    intro p hp; rw [hidsA]; simp only [List.contains_eq_mem, decide_eq_true_eq]; exact mem_ids.2 ⟨p.2, hp⟩
  have hB : ∀ p ∈ (absList s).drop pos, ((order s).take pos).contains p.1 = false := by
    intro p hp; rw [hidsA]; simp only [List.contains_eq_mem, decide_eq_false_iff_not]
    intro hx; exact hnd.2.2 p.1 hx p.1 (mem_ids.2 ⟨p.2, hp⟩) rfl
  have hfr : nid ∉ ids ((absList s).take pos ++ (absList s).drop pos) := by rw [← hL, ids_absList]; exact hfresh
  have hr' := hr.insert _ hA hB nid lvl hn0 hnb hfr hl
  refine ⟨hr'.linkInv, ?_, ?_⟩
  · show order (insert s _ nid lvl) = _
    rw [hr'.order_eq, ids_append, ids_cons, ← ids_absList s]; simp [ids]
  · show levels (insert s _ nid lvl) = _
    rw [hr'.levels_eq, h.rep.levels_eq]; simp

/-- **removal keeps the link clause**: of every node — first, last, only, of the top level -/
theorem LinkInv.removeAt {s : LDb} (h : LinkInv s) (pos : Nat) (hpos : pos < (order s).length) :
    LinkInv (removeAt s pos) ∧
    order (removeAt s pos) = (order s).eraseIdx pos ∧
    levels (removeAt s pos) = (levels s).eraseIdx pos := by
  have hr := h.rep
  have hget : (order s)[pos]? = some (order s)[pos] := List.getElem?_eq_getElem hpos
  have hget' : (absList s)[pos]? = some ((order s)[pos], lvlOf s (order s)[pos]) := by
    simp [absList, hget]
  have hL := split_at _ _ _ _ hget'
  have hr1 := hr
  rw [hL] at hr1
  have hr' := hr1.remove
  simp only [KvLinks.removeAt, hget]
  refine ⟨hr'.linkInv, ?_, ?_⟩
  · rw [hr'.order_eq, List.eraseIdx_eq_take_drop_succ, ids_append, ← ids_absList s]; simp [ids]
  · rw [hr'.levels_eq, hr.levels_eq, List.eraseIdx_eq_take_drop_succ]; simp

theorem linkInv_empty (blk : Nat) (hb : blk ≠ 0) : LinkInv (empty blk) ∧ order (empty blk) = [] :=
  ⟨(rep_empty blk hb).linkInv, by rw [(rep_empty blk hb).order_eq]; rfl⟩

/-- a structural step is admissible: the position exists, the allocator hands out a block that is not in
    use, the level fits -/
def LOp.ok (s : LDb) : LOp → Prop
  | .ins _ nid lvl => nid ≠ 0 ∧ nid ≠ s.blk ∧ nid ∉ order s ∧ lvl < SLEVELS
  | .rm pos => pos < (order s).length

def OpsOk : LDb → List LOp → Prop
  | _, [] => True
  | s, op :: ops => op.ok s ∧ OpsOk (step s op) ops

/-- the effect of a structural step on the level sequence -/
def stepLevels (l : List Nat) : LOp → List Nat
  | .ins pos _ lvl => l.take pos ++ lvl :: l.drop pos
  | .rm pos => l.eraseIdx pos

theorem LinkInv.step {s : LDb} (h : LinkInv s) (op : LOp) (hok : op.ok s) :
    LinkInv (step s op) ∧ levels (step s op) = stepLevels (levels s) op := by
  cases op with
  | ins pos nid lvl =>
    obtain ⟨h1, h2, h3, h4⟩ := hok
    have := h.insertAt pos nid lvl h1 h2 h3 h4
    exact ⟨this.1, this.2.2⟩
  | rm pos =>
    have := h.removeAt pos hok
    exact ⟨this.1, this.2.2⟩

theorem LinkInv.run {s : LDb} (h : LinkInv s) (ops : List LOp) (hok : OpsOk s ops) :
    LinkInv (run s ops) ∧ levels (run s ops) = ops.foldl stepLevels (levels s) := by
  induction ops generalizing s with
  | nil => exact ⟨h, rfl⟩
  | cons op ops ih =>
    obtain ⟨h1, h2⟩ := hok
    have hs := h.step op h1
    have := ih hs.1 h2
    simp only [KvLinks.run, List.foldl_cons] at this ⊢
    rw [← hs.2]
    exact this

/-- **the chute** `_lx_find_bounds` computes by walking links is, for each level `i ≤ nlvl`, the last node of
    level `≥ i` among the first `pos` nodes (the database block if none) and the first node of level `≥ i` behind
    them (0, the database tail, if none); `lx->lower`/`lx->upper` are the level-0 neighbours -/
theorem LinkInv.findBounds_eq {s : LDb} (h : LinkInv s) (pos nlvl : Nat) :
    findBounds s (fun x => ((order s).take pos).contains x) nlvl =
      (⟨(List.range (nlvl + 1)).map fun i => (((order s).take pos).filter fun x => decide (i ≤ lvlOf s x)).getLast?.getD s.blk,
        (List.range (nlvl + 1)).map fun i => (((order s).drop pos).filter fun x => decide (i ≤ lvlOf s x)).head?.getD 0⟩,
       ((order s).take pos).getLast?.getD s.blk, ((order s).drop pos).head?.getD 0) := by
  have hr := h.rep
  have hL : absList s = (absList s).take pos ++ (absList s).drop pos := (List.take_append_drop _ _).symm
  have hidsA : (order s).take pos = ids ((absList s).take pos) := by
    rw [← ids_absList s]; simp [ids]
  have hnd := hr.nodup
  rw [hL, ids_append, List.nodup_append] at hnd
  have hA : ∀ p ∈ (absList s).take pos, ((order s).take pos).contains p.1 = true := by
    intro p hp; rw [hidsA]; simp only [List.contains_eq_mem, decide_eq_true_eq]; exact mem_ids.2 ⟨p.2, hp⟩
  have hB : ∀ p ∈ (absList s).drop pos, ((order s).take pos).contains p.1 = false := by
    intro p hp; rw [hidsA]; simp only [List.contains_eq_mem, decide_eq_false_iff_not]
    intro hx; exact hnd.2.2 p.1 hx p.1 (mem_ids.2 ⟨p.2, hp⟩) rfl
  rw [hr.findBounds_eq hL _ hA hB nlvl]
  have eA : (absList s).take pos = ((order s).take pos).map fun x => (x, lvlOf s x) := by simp [absList]
  have eB : (absList s).drop pos = ((order s).drop pos).map fun x => (x, lvlOf s x) := by simp [absList]
  have e1 : ∀ i, lowerAt i s.blk ((absList s).take pos) =
      (((order s).take pos).filter fun x => decide (i ≤ lvlOf s x)).getLast?.getD s.blk := by
    intro i; rw [lowerAt_eq_last, eA, ids_map_filter s _ (fun l => decide (i ≤ l))]
  have e2 : ∀ i, nextAt i ((absList s).drop pos) =
      (((order s).drop pos).filter fun x => decide (i ≤ lvlOf s x)).head?.getD 0 := by
    intro i; rw [nextAt_eq_head, eB, ids_map_filter s _ (fun l => decide (i ≤ l))]
  have f1 : (((order s).take pos).filter fun x => decide (0 ≤ lvlOf s x)) = (order s).take pos :=
    List.filter_eq_self.2 (fun _ _ => by simp)
  have f2 : (((order s).drop pos).filter fun x => decide (0 ≤ lvlOf s x)) = (order s).drop pos :=
    List.filter_eq_self.2 (fun _ _ => by simp)
  simp only [e1, e2, f1, f2]

end IwModel.KvLinks
