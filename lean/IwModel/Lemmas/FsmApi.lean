import IwModel.Lemmas.FsmGrow
/-! The public calls (`_fsm_allocate`, `_fsm_deallocate`, `_fsm_reallocate`, close/reopen, clear) and the invariant. -/
namespace IwModel.Fsm

/-- the range is inside the bitmap and every block of it is allocated -/
def RangeAllocated (s : St) (off len : Nat) : Prop :=
  off + len ≤ nbits s ∧ ∀ i, off ≤ i → i < off + len → bit s.bits i = true

theorem deallocLw_refuse_range {s : St} {off len : Nat} (h : nbits s < off + len) : deallocLw s off len = (s, .segm) := by
  unfold deallocLw
  have h1 : checkBits s off len true = .segm := by unfold checkBits; rw [if_pos h]
  have h2 : setBits s off len false = (s, .segm) := by unfold setBits; rw [if_pos h]
  cases hs : s.strict
  · simp [hs, h2]
  · simp [hs, h1]

theorem deallocLw_refuse_strict {s : St} {off len : Nat} (hs : s.strict = true) (h : ¬ RangeAllocated s off len) :
    deallocLw s off len = (s, .segm) := by
  by_cases c : nbits s < off + len
  · exact deallocLw_refuse_range c
  · unfold deallocLw
    have h1 : checkBits s off len true = .segm := by
      unfold checkBits
      rw [if_neg c]
      have : ¬ (allEq s.bits off len true = true) := by
        rw [allEq_iff]; intro hh; exact h ⟨by omega, hh⟩
      simp [this]
    simp [hs, h1]

theorem guarded_false {s : St} (hI : Inv s) {off len : Nat} (hlen : 0 < len) (h : guarded s off len = false) :
    hdrBlk s ≤ off ∧ (off + len ≤ bmOffBlk s ∨ bmOffBlk s + bmLenBlk s ≤ off) := by
  unfold guarded at h
  simp only [Bool.or_eq_false_iff] at h
  have hb := rangesOverlap_false h.2 hlen hI.bmlen_pos
  refine ⟨?_, hb⟩
  have h1 := h.1
  unfold rangesOverlap at h1
  simp only [Bool.or_eq_false_iff, Bool.and_eq_false_iff, decide_eq_false_iff_not] at h1
  omega

/-- a release that is in order (strict mode checks it itself; otherwise the caller must own the range) -/
def ReleaseOk (s : St) (off len : Nat) : Prop := s.strict = true ∨ RangeAllocated s off len

/-- `_fsm_blk_deallocate_lw` behind the guards -/
theorem inv_deallocLw_guarded {s : St} (hI : Inv s) {off len : Nat} (hlen : 0 < len)
    (hg : hdrBlk s ≤ off ∧ (off + len ≤ bmOffBlk s ∨ bmOffBlk s + bmLenBlk s ≤ off)) (hok : ReleaseOk s off len) :
    Inv (deallocLw s off len).1 := by
  by_cases c : RangeAllocated s off len
  · exact inv_deallocLw hI hlen c.1 c.2 hg.1 hg.2
  · rcases hok with hs | hs
    · rw [deallocLw_refuse_strict hs c]; exact hI
    · exact absurd hs c

/-- `_fsm_deallocate` preserves the invariant -/
theorem inv_deallocate {s : St} (hI : Inv s) (a l : Nat) (hok : ReleaseOk s (a / bsz s) (l / bsz s)) :
    Inv (deallocate s a l).1 := by
  unfold deallocate
  split
  · exact hI
  · simp only
    split
    · exact hI
    · rename_i hl
      split
      · exact hI
      · rename_i hg
        exact inv_deallocLw_guarded hI (Nat.pos_of_ne_zero hl) (guarded_false hI (Nat.pos_of_ne_zero hl) (by simpa using hg)) hok

/-- `_fsm_deallocate` refuses ranges that touch the header or the bitmap, and changes nothing -/
theorem deallocate_guarded {s : St} {a l : Nat} (hal : a % bsz s = 0) (hl : l / bsz s ≠ 0)
    (hg : guarded s (a / bsz s) (l / bsz s) = true) : deallocate s a l = (s, .segm) := by
  unfold deallocate
  simp [hal, hl, hg]

/-- `_fsm_allocate` -/
theorem allocate_spec (hr : Heur) {s : St} (hI : Inv s) (lenB hintB : Nat) (f : Flags) :
    Inv (allocate hr s lenB hintB f).1 ∧ Geo s (allocate hr s lenB hintB f).1 ∧
    (∀ i, UserUsed s i → UserUsed (allocate hr s lenB hintB f).1 i) ∧
    ((allocate hr s lenB hintB f).2.1 = .ok → ∃ off olen,
      (allocate hr s lenB hintB f).2.2.1 = off * bsz s ∧ (allocate hr s lenB hintB f).2.2.2 = olen * bsz s ∧ 0 < lenB ∧
      AllocOk s (allocate hr s lenB hintB f).1 (roundup lenB (bsz s) / bsz s) f off olen) := by
  unfold allocate
  split
  · exact ⟨hI, Geo.refl _, fun i h => h, fun h => by cases h⟩
  · rename_i hl
    have hk := bsz_pos s
    have hL : 0 < roundup lenB (bsz s) / bsz s := by
      have h1 := le_roundup lenB hk
      have h2 := roundup_mod lenB (bsz s)
      exact div_pos_of_mod hk h2 (by omega)
    obtain ⟨a, b, c, d⟩ := allocLw_spec hr hL (hintB / bsz s) f allocFuel s hI
    generalize allocLw hr s (roundup lenB (bsz s) / bsz s) (hintB / bsz s) f allocFuel = r at a b c d
    obtain ⟨s1, rc, off, olen⟩ := r
    simp only at a b c d ⊢
    split
    · rename_i hrc
      exact ⟨a, b, c, fun _ => ⟨off, olen, by rw [← b.bsz], by rw [← b.bsz], Nat.pos_of_ne_zero hl, d hrc⟩⟩
    · rename_i hrc
      exact ⟨a, b, c, fun h => absurd h hrc⟩

theorem rangeAllocated_of_checkBits {s : St} {off len : Nat} (h : checkBits s off len true = .ok) :
    RangeAllocated s off len := by
  unfold checkBits at h
  split at h
  · cases h
  · rename_i c
    split at h
    · rename_i c2; exact ⟨by omega, (allEq_iff _ _ _ _).mp c2⟩
    · cases h

/-- `_fsm_reallocate` preserves the invariant -/
theorem inv_reallocate (hr : Heur) {s : St} (hI : Inv s) (nlenB addrB olenB : Nat) (f : Flags)
    (hok : ReleaseOk s (addrB / bsz s) (olenB / bsz s)) : Inv (reallocate hr s nlenB addrB olenB f).1 := by
  unfold reallocate
  generalize addrB / bsz s = oaddr at hok ⊢
  generalize olenB / bsz s = olen at hok ⊢
  generalize roundup nlenB (bsz s) / bsz s = nlen
  split
  · exact hI
  · simp only
    split
    · exact hI
    · rename_i hne
      split
      · exact hI
      · rename_i hg
        split
        · exact hI
        · rename_i hst
          -- the old range is allocated: checked in strict mode, promised by the caller otherwise
          have hra : RangeAllocated s oaddr olen := by
            rcases hok with c | c
            · by_cases hc : checkBits s oaddr olen true = .ok
              · exact rangeAllocated_of_checkBits hc
              · exfalso; apply hst; simp [c, hc]
            · exact c
          split
          · rename_i hlt
            -- shrink: release the tail of the old range
            have hpos : 0 < olen := by omega
            have hgf := guarded_false hI hpos (by simpa using hg)
            have hinv : Inv (deallocLw s (oaddr + nlen) (olen - nlen)).1 := by
              apply inv_deallocLw hI (by omega) (by have := hra.1; omega)
              · intro i h1 h2; exact hra.2 i (by omega) (by omega)
              · omega
              · omega
            generalize deallocLw s (oaddr + nlen) (olen - nlen) = r at hinv
            obtain ⟨s1, rc⟩ := r
            simp only at hinv ⊢
            split <;> exact hinv
          · rename_i hge
            have hnl : 0 < nlen := by omega
            obtain ⟨a, b, c, _⟩ := allocLw_spec hr hnl oaddr f allocFuel s hI
            generalize allocLw hr s nlen oaddr f allocFuel = r at a b c
            obtain ⟨s1, rc, naddr, sp⟩ := r
            simp only at a b c ⊢
            split
            · exact a
            · by_cases hol : olen = 0
              · simp only [hol, if_true]
                split <;> exact a
              · simp only [hol, if_false]
                have hpos : 0 < olen := Nat.pos_of_ne_zero hol
                have hgf := guarded_false hI hpos (by simpa using hg)
                -- the old range is still allocated, outside header and (possibly moved) bitmap
                have hu : ∀ i, oaddr ≤ i → i < oaddr + olen → UserUsed s1 i := by
                  intro i h1 h2
                  apply c i
                  refine ⟨?_, hra.2 i h1 h2, by omega⟩
                  rw [hI.size]; have := hra.1; omega
                have hinv : Inv (deallocLw s1 oaddr olen).1 := by
                  have hlast := hu (oaddr + olen - 1) (by omega) (by omega)
                  apply inv_deallocLw a hpos
                  · have := hlast.1; rw [a.size] at this; omega
                  · intro i h1 h2; exact (hu i h1 h2).2.1
                  · rw [b.hdrBlk]; exact hgf.1
                  · by_cases cc : oaddr + olen ≤ bmOffBlk s1 ∨ bmOffBlk s1 + bmLenBlk s1 ≤ oaddr
                    · exact cc
                    · exfalso
                      have := (hu (max oaddr (bmOffBlk s1)) (by omega) (by omega)).2.2
                      have := a.bmlen_pos
                      omega
                generalize deallocLw s1 oaddr olen = r2 at hinv
                obtain ⟨s2, rc2⟩ := r2
                simp only at hinv ⊢
                split <;> exact hinv

end IwModel.Fsm
