import IwModel.Lemmas.HMapRef
import IwModel.Lemmas.Arr
import IwModel.Model.XStr
import IwModel.Model.Pool
import Mathlib.Algebra.Order.Group.Multiset
import Mathlib.Tactic.Abel
/-!
Ownership accounting (`freed_exactly_once`): for each container that owns elements, one call moves tokens
between three piles - taken over from the caller, handed to the free callback, handed back to the caller - and
the tokens the container still holds.  Every lemma here has the shape

  `freed + back + held' = held + taken`      (multisets)

so that over a history ending in destroy (which frees what is held) `freed + back = taken`.
-/
set_option linter.unusedSimpArgs false
set_option linter.unusedSectionVars false
namespace IwModel

/-- the three piles of one call or of a whole history -/
structure Ledger (τ : Type) where
  /-- owned elements inserted: ownership passed from the caller to the container -/
  taken : List τ := []
  /-- elements handed to the free callback (or freed by the container itself) -/
  freed : List τ := []
  /-- elements handed back to the caller, who owns them again -/
  back : List τ := []

namespace Ledger
variable {τ : Type}
def add (a b : Ledger τ) : Ledger τ := { taken := a.taken ++ b.taken, freed := a.freed ++ b.freed, back := a.back ++ b.back }
def map {σ : Type} (f : τ → σ) (a : Ledger τ) : Ledger σ := { taken := a.taken.map f, freed := a.freed.map f, back := a.back.map f }
/-- nothing is lost, nothing is freed twice -/
def Balanced (a : Ledger τ) : Prop := (a.freed : Multiset τ) + (a.back : Multiset τ) = (a.taken : Multiset τ)

theorem Balanced.map {σ : Type} (f : τ → σ) {a : Ledger τ} (h : a.Balanced) : (a.map f).Balanced := by
  unfold Balanced at *
  show ((a.freed.map f : List σ) : Multiset σ) + ((a.back.map f : List σ) : Multiset σ) = ((a.taken.map f : List σ) : Multiset σ)
  rw [← Multiset.map_coe, ← Multiset.map_coe, ← Multiset.map_coe, ← Multiset.map_add, h]
/-- chaining: a call that turns the held multiset `H` into `H'`, followed by a history that is balanced over `H'` -/
theorem add_balance (L1 L2 : Ledger τ) (H H' : Multiset τ)
    (b1 : (↑L1.freed : Multiset τ) + ↑L1.back + H' = H + ↑L1.taken)
    (b2 : (↑L2.freed : Multiset τ) + ↑L2.back = ↑L2.taken + H') :
    (↑(L1.add L2).freed : Multiset τ) + ↑(L1.add L2).back = ↑(L1.add L2).taken + H := by
  show (↑(L1.freed ++ L2.freed) : Multiset τ) + ↑(L1.back ++ L2.back) = ↑(L1.taken ++ L2.taken) + H
  rw [← Multiset.coe_add, ← Multiset.coe_add, ← Multiset.coe_add]
  calc (↑L1.freed : Multiset τ) + ↑L2.freed + (↑L1.back + ↑L2.back)
      = (↑L1.freed + ↑L1.back) + (↑L2.freed + ↑L2.back) := by abel
    _ = (↑L1.freed + ↑L1.back) + (↑L2.taken + H') := by rw [b2]
    _ = (↑L1.freed + ↑L1.back + H') + ↑L2.taken := by abel
    _ = (H + ↑L1.taken) + ↑L2.taken := by rw [b1]
    _ = _ := by abel
end Ledger

/-- normalise empty piles -/
macro "ms_norm" : tactic => `(tactic| simp only [Multiset.coe_nil, zero_add, add_zero])

/-! ## hash map -/
namespace HMap
variable {κ : Type} [DecidableEq κ]

/-- a ghost association list for the key → value function of a reference state -/
def AL (s : Ref κ) (al : List (κ × Nat)) : Prop :=
  (al.map (·.1)).Nodup ∧ ∀ k v, (k, v) ∈ al ↔ s.f k = some v

/-- the tokens of one stored pair / of all stored pairs -/
def toks (own : Bool) (k : κ) (v : Nat) : Multiset (Tok κ) := ↑(freeToks own (some k) v)
def held (own : Bool) (al : List (κ × Nat)) : Multiset (Tok κ) :=
  ↑(al.flatMap fun kv => freeToks own (some kv.1) kv.2)

theorem held_nil (own : Bool) : held own ([] : List (κ × Nat)) = 0 := rfl
theorem held_cons (own : Bool) (k : κ) (v : Nat) (al : List (κ × Nat)) :
    held own ((k, v) :: al) = toks own k v + held own al := by
  unfold held toks; rw [List.flatMap_cons, ← Multiset.coe_add]

theorem AL.congr {s s' : Ref κ} {al : List (κ × Nat)} (h : AL s al) (hf : ∀ k, s'.f k = s.f k) : AL s' al :=
  ⟨h.1, fun k v => by rw [hf]; exact h.2 k v⟩

theorem filter_ne_self (al : List (κ × Nat)) (k : κ) (h : k ∉ al.map (·.1)) :
    al.filter (fun kv => decide (kv.1 ≠ k)) = al := by
  rw [List.filter_eq_self]
  intro kv hkv
  have : kv.1 ≠ k := fun e => h (e ▸ List.mem_map_of_mem hkv)
  simpa using this

/-- taking the pair of key `k` out of a duplicate-free association list -/
theorem held_extract (own : Bool) (k : κ) (v : Nat) : ∀ (al : List (κ × Nat)), (al.map (·.1)).Nodup → (k, v) ∈ al →
    held own al = toks own k v + held own (al.filter (fun kv => decide (kv.1 ≠ k))) := by
  intro al
  induction al with
  | nil => intro _ h; simp at h
  | cons p rest ih =>
    intro nd hm
    obtain ⟨k', v'⟩ := p
    rw [List.map_cons, List.nodup_cons] at nd
    by_cases hk : k' = k
    · subst hk
      have hv : v' = v := by
        rcases List.mem_cons.mp hm with e | e
        · exact (Prod.mk.inj e).2.symm
        · exact absurd (List.mem_map_of_mem (f := (·.1)) e) nd.1
      subst hv
      rw [List.filter_cons]
      simp only [ne_eq, not_true_eq_false, decide_false, Bool.false_eq_true, if_false]
      rw [filter_ne_self rest k' nd.1, held_cons]
    · have hm' : (k, v) ∈ rest := by
        rcases List.mem_cons.mp hm with e | e
        · exact absurd (Prod.mk.inj e).1.symm hk
        · exact e
      rw [List.filter_cons]
      have : decide ((k', v').1 ≠ k) = true := by simpa using hk
      rw [if_pos this, held_cons, held_cons, ih nd.2 hm']
      abel

theorem AL.del {s : Ref κ} {al : List (κ × Nat)} (h : AL s al) (own : Bool) (k : κ) (v : Nat) (hv : s.f k = some v) :
    AL (s.del k) (al.filter (fun kv => decide (kv.1 ≠ k))) ∧
    held own al = toks own k v + held own (al.filter (fun kv => decide (kv.1 ≠ k))) := by
  refine ⟨⟨?_, ?_⟩, held_extract own k v al h.1 ((h.2 k v).mpr hv)⟩
  · exact h.1.sublist ((List.filter_sublist).map _)
  · intro k' v'
    rw [List.mem_filter, h.2]
    show _ ↔ (if k' = k then none else s.f k') = some v'
    by_cases hk : k' = k <;> simp [hk]

theorem AL.set {s : Ref κ} {al : List (κ × Nat)} (h : AL s al) (own : Bool) (k : κ) (v : Nat) :
    AL (s.set k v) ((k, v) :: al.filter (fun kv => decide (kv.1 ≠ k))) ∧
    held own al + toks own k v =
      (match s.f k with | some old => toks own k old | none => 0) +
        held own ((k, v) :: al.filter (fun kv => decide (kv.1 ≠ k))) := by
  refine ⟨⟨?_, ?_⟩, ?_⟩
  · rw [List.map_cons, List.nodup_cons]
    refine ⟨?_, h.1.sublist ((List.filter_sublist).map _)⟩
    intro hm
    obtain ⟨kv, hkv, e⟩ := List.mem_map.mp hm
    have := (List.mem_filter.mp hkv).2
    simp at this
    exact this e
  · intro k' v'
    rw [List.mem_cons, List.mem_filter, h.2]
    show _ ↔ (if k' = k then some v else s.f k') = some v'
    by_cases hk : k' = k
    · subst hk; simp; exact eq_comm
    · simp [hk]
  · rw [held_cons]
    cases hf : s.f k with
    | none =>
      have hk : k ∉ al.map (·.1) := by
        intro hm
        obtain ⟨kv, hkv, e⟩ := List.mem_map.mp hm
        have := (h.2 kv.1 kv.2).mp hkv
        rw [e, hf] at this; simp at this
      rw [filter_ne_self al k hk]
      simp only
      abel
    | some old =>
      simp only
      rw [held_extract own k old al h.1 ((h.2 k old).mpr hf)]
      abel

theorem evict_own : ∀ (fuel : Nat) (s : Ref κ) (acc : List (Tok κ)), (Ref.evict fuel s acc).1.own = s.own := by
  intro fuel
  induction fuel with
  | zero => intro s acc; rfl
  | succ fuel ih =>
    intro s acc
    unfold Ref.evict
    split
    · rfl
    · split
      · split
        · rfl
        · rw [ih]; rfl
      · rfl

/-- the eviction loop hands over exactly the pairs it removes -/
theorem AL.evict : ∀ (fuel : Nat) (s : Ref κ) (acc : List (Tok κ)) (al : List (κ × Nat)), AL s al →
    ∃ al', AL (Ref.evict fuel s acc).1 al' ∧
      (↑(Ref.evict fuel s acc).2 : Multiset (Tok κ)) + held s.own al' = ↑acc + held s.own al := by
  intro fuel
  induction fuel with
  | zero => intro s acc al h; exact ⟨al, h, rfl⟩
  | succ fuel ih =>
    intro s acc al h
    unfold Ref.evict
    split
    · exact ⟨al, h, rfl⟩
    · rename_i k rest hl
      split
      · split
        · exact ⟨al, h, rfl⟩
        · rename_i v hv
          obtain ⟨h', e⟩ := h.del s.own k v hv
          obtain ⟨al', a1, a2⟩ := ih (s.del k) (acc ++ freeToks s.own (some k) v) _ h'
          refine ⟨al', a1, ?_⟩
          have ho : (s.del k).own = s.own := rfl
          rw [ho] at a2
          rw [a2, e, ← Multiset.coe_add]
          unfold toks
          abel
      · exact ⟨al, h, rfl⟩

theorem touchIfOn_f (s : Ref κ) (k : κ) : (s.touchIfOn k).f = s.f ∧ (s.touchIfOn k).own = s.own := by
  unfold Ref.touchIfOn; split <;> exact ⟨rfl, rfl⟩

/-- `put`: the new pair is taken over; a replaced pair and the eviction victims are freed -/
theorem AL.put {s : Ref κ} {al : List (κ × Nat)} (h : AL s al) (k : κ) (v : Nat) :
    (s.put k v).1.own = s.own ∧
    ∃ al', AL (s.put k v).1 al' ∧
      (↑(s.put k v).2 : Multiset (Tok κ)) + held s.own al' = held s.own al + toks s.own k v := by
  obtain ⟨h1, e1⟩ := h.set s.own k v
  have h2 : AL ((s.set k v).touchIfOn k) ((k, v) :: al.filter (fun kv => decide (kv.1 ≠ k))) :=
    h1.congr (fun x => by rw [(touchIfOn_f _ _).1])
  have ho : ((s.set k v).touchIfOn k).own = s.own := (touchIfOn_f _ _).2
  unfold Ref.put
  refine ⟨by rw [evict_own]; exact ho, ?_⟩
  obtain ⟨al', a1, a2⟩ := AL.evict (((s.set k v).touchIfOn k).lru.length + 1) ((s.set k v).touchIfOn k)
    (match s.f k with | some old => freeToks s.own (some k) old | none => []) _ h2
  refine ⟨al', a1, ?_⟩
  rw [ho] at a2
  refine Eq.trans a2 ?_
  rw [e1]
  cases s.f k <;> rfl

theorem AL.remove {s : Ref κ} {al : List (κ × Nat)} (h : AL s al) (k : κ) :
    (s.remove k).1.own = s.own ∧
    ∃ al', AL (s.remove k).1 al' ∧ (↑(s.remove k).2.2 : Multiset (Tok κ)) + held s.own al' = held s.own al := by
  unfold Ref.remove
  cases hf : s.f k with
  | none => exact ⟨rfl, al, h, by simp⟩
  | some v =>
    obtain ⟨h', e⟩ := h.del s.own k v hf
    exact ⟨rfl, _, h', by rw [e]; rfl⟩

/-- `rename`: the new key is taken over only when the old key exists; the old key is freed, and so is a pair
already stored under the new key; the value moves along -/
theorem AL.rename {s : Ref κ} {al : List (κ × Nat)} (h : AL s al) (a b : κ) :
    (s.rename a b).1.own = s.own ∧
    ∃ al', AL (s.rename a b).1 al' ∧
      (↑(s.rename a b).2 : Multiset (Tok κ)) + held s.own al' =
        held s.own al + (if (s.f a).isSome then toks s.own b 0 else 0) := by
  unfold Ref.rename
  cases hf : s.f a with
  | none => exact ⟨rfl, al, h, by simp⟩
  | some v =>
    obtain ⟨h1, e1⟩ := h.del s.own a v hf
    obtain ⟨h2, e2⟩ := h1.set s.own b v
    simp only [Option.isSome_some, if_true]
    refine ⟨(touchIfOn_f _ _).2, _, h2.congr (fun x => by rw [(touchIfOn_f _ _).1]), ?_⟩
    rw [← Multiset.coe_add, e1]
    have hsplit : ∀ (k : κ) (w : Nat), toks s.own k w = toks s.own k 0 + (((if w = 0 then [] else [Tok.v w] : List (Tok κ))) : Multiset (Tok κ)) := by
      intro k w
      unfold toks freeToks
      rw [← Multiset.coe_add]; simp
    have e2' : held s.own (al.filter fun kv => decide (kv.1 ≠ a)) + toks s.own b v =
        (((match (s.del a).f b with | some old => freeToks s.own (some b) old | none => [] : List (Tok κ))) : Multiset (Tok κ)) +
          held s.own ((b, v) :: (al.filter fun kv => decide (kv.1 ≠ a)).filter fun kv => decide (kv.1 ≠ b)) := by
      rw [e2]; cases (s.del a).f b <;> rfl
    have t1 := hsplit a v
    have t2 := hsplit b v
    rw [t1]
    rw [t2] at e2'
    show (toks s.own a 0) + _ + _ = _
    generalize held s.own ((b, v) :: (al.filter fun kv => decide (kv.1 ≠ a)).filter fun kv => decide (kv.1 ≠ b)) = H at e2' ⊢
    generalize (((match (s.del a).f b with | some old => freeToks s.own (some b) old | none => [] : List (Tok κ))) : Multiset (Tok κ)) = T at e2' ⊢
    generalize held s.own (al.filter fun kv => decide (kv.1 ≠ a)) = H1 at e2' ⊢
    generalize (((if v = 0 then [] else [Tok.v v] : List (Tok κ))) : Multiset (Tok κ)) = V at e2' ⊢
    have : T + H = H1 + (toks s.own b 0 + V) := e2'.symm
    calc toks s.own a 0 + T + H = toks s.own a 0 + (T + H) := by abel
      _ = toks s.own a 0 + (H1 + (toks s.own b 0 + V)) := by rw [this]
      _ = toks s.own a 0 + V + H1 + toks s.own b 0 := by abel

/-- the pairs the table iterates over are the pairs of the ghost list, as multisets -/
theorem allToks_held {h : κ → Nat} {m : Map κ} {s : Ref κ} (r : R h m s) {al : List (κ × Nat)} (a : AL s al) :
    (↑(allToks m) : Multiset (Tok κ)) = held s.own al := by
  rw [allToks_eq, r.own]
  unfold held
  rw [Multiset.coe_eq_coe]
  apply List.Perm.flatMap_right
  obtain ⟨t1, t2, _⟩ := toList_spec r.wf
  rw [List.perm_ext_iff_of_nodup (List.Nodup.of_map _ t2) (List.Nodup.of_map _ a.1)]
  intro kv
  obtain ⟨k, v⟩ := kv
  rw [t1, r.maps, a.2]

theorem locate_isSome {h : κ → Nat} {m : Map κ} {s : Ref κ} (r : R h m s) (a : κ) :
    (locate m a (h a)).isSome = (s.f a).isSome := by
  cases hloc : locate m a (h a) with
  | none => rw [r.none_of_not_maps a (locate_none r.wf a hloc)]; rfl
  | some p =>
    obtain ⟨bi, ei⟩ := p
    obtain ⟨_, e, he, hk⟩ := locate_some a hloc
    have : s.f a = some e.val := (r.maps a e.val).1 ⟨e, List.mem_of_getElem? he, hk, rfl⟩
    rw [this]; rfl

end HMap

/-! ## list of owned items (`iwlist`) -/
namespace Arr
variable {α : Type}

/-- the item a call hands to the caller, as a list of tokens -/
def itemL : Option (Option α) → List α
  | some (some y) => [y]
  | _ => []

theorem itemL_get (w : List α) (i : Nat) (h : i < w.length) : itemL (some w[i]?) = [w[i]] := by
  rw [List.getElem?_eq_getElem h]; rfl

theorem ms_insert (w : List α) (i : Nat) (x : α) :
    (↑(w.take i ++ x :: w.drop i) : Multiset α) = ↑w + ↑[x] := by
  rw [Multiset.coe_add, Multiset.coe_eq_coe]
  refine List.perm_middle.trans ?_
  rw [List.take_append_drop]
  exact (List.perm_append_singleton x w).symm

theorem split_at (w : List α) (i : Nat) (h : i < w.length) : w = w.take i ++ w[i] :: w.drop (i + 1) := by
  rw [← List.drop_eq_getElem_cons h, List.take_append_drop]

theorem ms_remove (w : List α) (i : Nat) (h : i < w.length) :
    (↑w : Multiset α) = ↑(w.take i ++ w.drop (i + 1)) + ↑[w[i]] := by
  conv => lhs; rw [split_at w i h]
  rw [Multiset.coe_add, Multiset.coe_eq_coe]
  exact List.perm_middle.trans (List.perm_append_singleton _ _).symm

theorem ms_set (w : List α) (i : Nat) (x : α) (h : i < w.length) :
    (↑(w.set i x) : Multiset α) + ↑[w[i]] = ↑w + ↑[x] := by
  have hl : i < (w.set i x).length := by simp; exact h
  have e1 := ms_remove (w.set i x) i hl
  have e2 := ms_remove w i h
  rw [List.take_set_of_le (Nat.le_refl _), List.drop_set_of_lt (Nat.lt_succ_self _), List.getElem_set_self] at e1
  rw [e1]
  conv => rhs; rw [e2]
  abel

theorem ms_cons (w : List α) (x : α) : (↑(x :: w) : Multiset α) = ↑w + ↑[x] := by
  rw [Multiset.coe_add, Multiset.coe_eq_coe]
  exact (List.perm_append_singleton x w).symm

theorem ms_pop (w : List α) (n : Nat) (hn : w.length = n) (h : 0 < n) :
    (↑w : Multiset α) = ↑(w.take (n - 1)) + ↑[w[n - 1]'(by omega)] := by
  have := ms_remove w (n - 1) (by omega)
  have e : n - 1 + 1 = n := by omega
  rw [e, List.drop_of_length_le (by omega), List.append_nil] at this
  exact this

theorem ms_shift (w : List α) (h : 0 < w.length) : (↑w : Multiset α) = ↑(w.drop 1) + ↑[w[0]] := by
  have := ms_remove w 0 h
  rw [List.take_zero, List.nil_append] at this
  exact this

end Arr

/-! ## user data of `iwxstr` and `iwpool`, child pools with their own reference counts, orphans -/
namespace Pool

/-- user data held by a handle-indexed list of pools (attached children, or orphans) -/
def heldK (kids : List (Nat × Pool)) : Multiset Nat := ↑(kids.flatMap (·.2.ud.toList))
/-- the user data owned by some live pool of the family: the attached children, the main pool, the orphans -/
def held (s : Sys) : Multiset Nat := heldK s.kids + ↑s.main.ud.toList + heldK s.orphans

/-- child handles (attached children and orphans together) are distinct and below the counter -/
def KidsOk (s : Sys) : Prop := ((s.kids ++ s.orphans).map (·.1)).Nodup ∧ ∀ p ∈ s.kids ++ s.orphans, p.1 < s.next

/-- once the main pool is freed it has no children and no user data any more -/
def GoneOk (s : Sys) : Prop := s.gone = true → s.kids = [] ∧ s.main.ud = none

theorem heldK_nil : heldK [] = 0 := rfl

theorem heldK_cons (p : Nat × Pool) (kids : List (Nat × Pool)) :
    heldK (p :: kids) = ↑p.2.ud.toList + heldK kids := by
  unfold heldK; rw [List.flatMap_cons, ← Multiset.coe_add]

theorem heldK_append (a b : List (Nat × Pool)) : heldK (a ++ b) = heldK a + heldK b := by
  unfold heldK; rw [List.flatMap_append, ← Multiset.coe_add]

theorem KidsOk.kids {s : Sys} (ok : KidsOk s) : (s.kids.map (·.1)).Nodup := by
  have := ok.1; rw [List.map_append] at this; exact this.sublist (List.sublist_append_left _ _)

theorem KidsOk.orphans {s : Sys} (ok : KidsOk s) : (s.orphans.map (·.1)).Nodup := by
  have := ok.1; rw [List.map_append] at this; exact this.sublist (List.sublist_append_right _ _)

/-- a step that keeps the counter and only drops handles keeps `KidsOk` -/
theorem kidsOk_of_sub (s s' : Sys) (ok : KidsOk s) (hn : s'.next = s.next)
    (hs : ((s'.kids ++ s'.orphans).map (·.1)).Sublist ((s.kids ++ s.orphans).map (·.1))) : KidsOk s' := by
  refine ⟨ok.1.sublist hs, fun p hp => ?_⟩
  have : p.1 ∈ (s.kids ++ s.orphans).map (·.1) := hs.subset (List.mem_map_of_mem hp)
  obtain ⟨p0, hp0, e⟩ := List.mem_map.mp this
  rw [hn, ← e]; exact ok.2 p0 hp0

theorem filter_ne_self (kids : List (Nat × Pool)) (h : Nat) (hn : h ∉ kids.map (·.1)) :
    kids.filter (fun p => decide (p.1 ≠ h)) = kids := by
  rw [List.filter_eq_self]
  intro p hp
  have : p.1 ≠ h := fun e => hn (e ▸ List.mem_map_of_mem hp)
  simpa using this

theorem map_ne_self (kids : List (Nat × Pool)) (h : Nat) (c : Pool) (hn : h ∉ kids.map (·.1)) :
    (kids.map fun (p : Nat × Pool) => if p.1 = h then (p.1, c) else (p.1, p.2)) = kids := by
  induction kids with
  | nil => rfl
  | cons p rest ih =>
    rw [List.map_cons, List.mem_cons, not_or] at hn
    rw [List.map_cons, ih hn.2, if_neg (fun e => hn.1 e.symm)]

/-- the pool with handle `h`: taking it out / replacing it changes the held user data by that pool's only -/
theorem kid_extract (h : Nat) (q : Pool) : ∀ (kids : List (Nat × Pool)), (kids.map (·.1)).Nodup →
    findIn kids h = some q →
    heldK kids = ↑q.ud.toList + heldK (kids.filter (fun p => decide (p.1 ≠ h))) ∧
    ∀ c : Pool, heldK (setIn kids h c) + ↑q.ud.toList = heldK kids + ↑c.ud.toList := by
  intro kids
  unfold findIn setIn
  induction kids with
  | nil => intro _ hf; simp at hf
  | cons p rest ih =>
    intro nd hf
    rw [List.map_cons, List.nodup_cons] at nd
    rw [List.find?_cons] at hf
    by_cases hp : p.1 = h
    · have hd : decide (p.1 = h) = true := by simpa using hp
      rw [hd] at hf
      simp only [Option.map_some, Option.some.injEq] at hf
      have hnot : h ∉ rest.map (·.1) := hp ▸ nd.1
      constructor
      · rw [List.filter_cons]
        have : decide (p.1 ≠ h) = false := by simpa using hp
        rw [this]
        simp only [Bool.false_eq_true, if_false]
        rw [filter_ne_self rest h hnot, heldK_cons, hf]
      · intro c
        rw [List.map_cons, if_pos hp, map_ne_self rest h c hnot, heldK_cons, heldK_cons, hf]
        simp only
        abel
    · have hd : decide (p.1 = h) = false := by simpa using hp
      rw [hd] at hf
      obtain ⟨i1, i2⟩ := ih nd.2 hf
      constructor
      · rw [List.filter_cons]
        have : decide (p.1 ≠ h) = true := by simpa using hp
        rw [this]
        simp only [if_true]
        rw [heldK_cons, heldK_cons, i1]
        abel
      · intro c
        rw [List.map_cons, if_neg hp, heldK_cons, heldK_cons]
        have := i2 c
        calc ↑(p.1, p.2).2.ud.toList + heldK (rest.map fun (p : Nat × Pool) => if p.1 = h then (p.1, c) else (p.1, p.2)) + ↑q.ud.toList
            = ↑p.2.ud.toList + (heldK (rest.map fun (p : Nat × Pool) => if p.1 = h then (p.1, c) else (p.1, p.2)) + ↑q.ud.toList) := by abel
          _ = ↑p.2.ud.toList + (heldK rest + ↑c.ud.toList) := by rw [this]
          _ = ↑p.2.ud.toList + heldK rest + ↑c.ud.toList := by abel

theorem setIn_keys (l : List (Nat × Pool)) (h : Nat) (c : Pool) : (setIn l h c).map (·.1) = l.map (·.1) := by
  unfold setIn
  rw [List.map_map]
  apply List.map_congr_left
  intro p _
  simp only [Function.comp]
  split <;> rfl

/-- replacing a pool by one with the same user data (a reference count change) leaves the held user data alone -/
theorem heldK_setIn_same (l : List (Nat × Pool)) (h : Nat) (q c : Pool) (nd : (l.map (·.1)).Nodup)
    (hq : findIn l h = some q) (hc : c.ud = q.ud) : heldK (setIn l h c) = heldK l := by
  have := (kid_extract h q l nd hq).2 c
  rw [hc] at this
  exact add_right_cancel this

/-- setting user data of the pool with handle `h` in a list -/
theorem heldK_setIn_ud (l : List (Nat × Pool)) (h : Nat) (q : Pool) (id : Nat) (nd : (l.map (·.1)).Nodup)
    (hq : findIn l h = some q) : (↑(udSet q id).2 : Multiset Nat) + heldK (setIn l h (udSet q id).1) = heldK l + ↑[id] := by
  have := (kid_extract h q l nd hq).2 (udSet q id).1
  have e3 : (↑(udSet q id).1.ud.toList : Multiset Nat) = ↑[id] := rfl
  rw [e3] at this
  show (↑q.ud.toList : Multiset Nat) + _ = _
  rw [← this]; abel

theorem findIn_nil (h : Nat) : findIn [] h = none := rfl

theorem kidsOk_attach (s : Sys) (c : Pool) (ok : KidsOk s) : KidsOk (attach s c).1 := by
  unfold attach
  refine ⟨?_, ?_⟩
  · show (((s.next, c) :: s.kids) ++ s.orphans).map (·.1) |>.Nodup
    rw [List.cons_append, List.map_cons, List.nodup_cons]
    refine ⟨?_, ok.1⟩
    intro hm
    obtain ⟨p, hp, e⟩ := List.mem_map.mp hm
    have := ok.2 p hp
    simp only at e
    omega
  · intro p hp
    show p.1 < s.next + 1
    have hp' : p ∈ (s.next, c) :: (s.kids ++ s.orphans) := hp
    rcases List.mem_cons.mp hp' with e | e
    · rw [e]; simp
    · have := ok.2 p e; omega

theorem held_attach (s : Sys) (c : Pool) : held (attach s c).1 = held s + ↑c.ud.toList := by
  show heldK ((s.next, c) :: s.kids) + ↑s.main.ud.toList + heldK s.orphans = heldK s.kids + ↑s.main.ud.toList + heldK s.orphans + ↑c.ud.toList
  rw [heldK_cons]; abel

/-! ### `iwpool_destroy` on a child handle -/

/-- one `iwpool_destroy` of a childless pool in a list: what is freed leaves the list, nothing else changes; with
references left nothing is freed and the pool keeps its user data -/
theorem held_destroyIn (l : List (Nat × Pool)) (h : Nat) (nd : (l.map (·.1)).Nodup) (l' : List (Nat × Pool)) (b : Bool)
    (f : List Nat) (hd : destroyIn l h = some (l', b, f)) :
    (↑f : Multiset Nat) + heldK l' = heldK l ∧ (l'.map (·.1)).Sublist (l.map (·.1)) := by
  unfold destroyIn at hd
  cases hq : findIn l h with
  | none => rw [hq] at hd; simp at hd
  | some q =>
    rw [hq] at hd
    simp only [Option.map_some, Option.some.injEq] at hd
    split at hd
    · simp only [Prod.mk.injEq] at hd
      obtain ⟨rfl, rfl, rfl⟩ := hd
      refine ⟨?_, by rw [setIn_keys]⟩
      rw [heldK_setIn_same l h q (unref q) nd hq rfl]; ms_norm
    · simp only [Prod.mk.injEq] at hd
      obtain ⟨rfl, rfl, rfl⟩ := hd
      exact ⟨((kid_extract h q l nd hq).1).symm, (List.filter_sublist).map _⟩

theorem destroyIn_some (l : List (Nat × Pool)) (h : Nat) (q : Pool) (hq : findIn l h = some q) :
    destroyIn l h = some (if q.refs > 1 then (setIn l h (unref q), false, [])
                          else (l.filter (fun p => decide (p.1 ≠ h)), true, q.ud.toList)) := by
  unfold destroyIn; rw [hq]; rfl

theorem destroyIn_none (l : List (Nat × Pool)) (h : Nat) (hq : findIn l h = none) : destroyIn l h = none := by
  unfold destroyIn; rw [hq]; rfl

theorem destroyKid_kids (s : Sys) (c : Nat) (k : List (Nat × Pool)) (b : Bool) (f : List Nat)
    (h : destroyIn s.kids c = some (k, b, f)) : destroyKid s c = ({ s with kids := k }, some b, f) := by
  unfold destroyKid; rw [h]

theorem destroyKid_orph (s : Sys) (c : Nat) (o : List (Nat × Pool)) (b : Bool) (f : List Nat)
    (h1 : destroyIn s.kids c = none) (h2 : destroyIn s.orphans c = some (o, b, f)) :
    destroyKid s c = ({ s with orphans := o }, some b, f) := by
  unfold destroyKid; rw [h1, h2]

theorem destroyKid_none (s : Sys) (c : Nat) (h1 : destroyIn s.kids c = none) (h2 : destroyIn s.orphans c = none) :
    destroyKid s c = (s, none, []) := by
  unfold destroyKid; rw [h1, h2]

/-- `iwpool_destroy` on a child handle frees exactly what leaves the family: freed + held after = held before -/
theorem held_destroyKid (s : Sys) (c : Nat) (ok : KidsOk s) :
    KidsOk (destroyKid s c).1 ∧ (↑(destroyKid s c).2.2 : Multiset Nat) + held (destroyKid s c).1 = held s := by
  cases h1 : destroyIn s.kids c with
  | some r =>
    obtain ⟨k, b, f⟩ := r
    rw [destroyKid_kids s c k b f h1]
    obtain ⟨hb, hs⟩ := held_destroyIn s.kids c ok.kids k b f h1
    refine ⟨kidsOk_of_sub s _ ok rfl ?_, ?_⟩
    · show ((k ++ s.orphans).map (·.1)).Sublist _
      rw [List.map_append, List.map_append]; exact hs.append (List.Sublist.refl _)
    · show (↑f : Multiset Nat) + (heldK k + ↑s.main.ud.toList + heldK s.orphans) = heldK s.kids + ↑s.main.ud.toList + heldK s.orphans
      rw [← hb]; abel
  | none =>
    cases h2 : destroyIn s.orphans c with
    | some r =>
      obtain ⟨o, b, f⟩ := r
      rw [destroyKid_orph s c o b f h1 h2]
      obtain ⟨hb, hs⟩ := held_destroyIn s.orphans c ok.orphans o b f h2
      refine ⟨kidsOk_of_sub s _ ok rfl ?_, ?_⟩
      · show ((s.kids ++ o).map (·.1)).Sublist _
        rw [List.map_append, List.map_append]; exact (List.Sublist.refl _).append hs
      · show (↑f : Multiset Nat) + (heldK s.kids + ↑s.main.ud.toList + heldK o) = heldK s.kids + ↑s.main.ud.toList + heldK s.orphans
        rw [← hb]; abel
    | none => rw [destroyKid_none s c h1 h2]; exact ⟨ok, by ms_norm⟩

/-- what `iwpool_destroy` on a child handle returns and frees, by the reference count of the pool it denotes: more
than one reference → `false`, nothing freed; the last one → `true`, exactly that pool's user data -/
theorem destroyKid_result (s : Sys) (c : Nat) (q : Pool) (hq : lookup s c = some q) :
    (destroyKid s c).2 = if 1 < q.refs then (some false, []) else (some true, q.ud.toList) := by
  unfold lookup kid orphan at hq
  cases hk : findIn s.kids c with
  | some q' =>
    rw [hk] at hq
    simp only [Option.some_or, Option.some.injEq] at hq
    subst hq
    have h1 := destroyIn_some s.kids c q' hk
    by_cases hr : 1 < q'.refs
    · rw [if_pos hr] at h1; rw [destroyKid_kids s c _ _ _ h1, if_pos hr]
    · rw [if_neg hr] at h1; rw [destroyKid_kids s c _ _ _ h1, if_neg hr]
  | none =>
    rw [hk] at hq
    simp only [Option.none_or] at hq
    have h1 := destroyIn_none s.kids c hk
    have h2 := destroyIn_some s.orphans c q hq
    by_cases hr : 1 < q.refs
    · rw [if_pos hr] at h2; rw [destroyKid_orph s c _ _ _ h1 h2, if_pos hr]
    · rw [if_neg hr] at h2; rw [destroyKid_orph s c _ _ _ h1 h2, if_neg hr]

/-- a handle that denotes no pool: nothing happens -/
theorem destroyKid_nochild (s : Sys) (c : Nat) (hq : lookup s c = none) : destroyKid s c = (s, none, []) := by
  unfold lookup kid orphan at hq
  cases hk : findIn s.kids c with
  | some q' => rw [hk] at hq; simp at hq
  | none =>
    rw [hk] at hq
    simp only [Option.none_or] at hq
    exact destroyKid_none s c (destroyIn_none _ _ hk) (destroyIn_none _ _ hq)

/-! ### user data / references through a child handle -/

theorem setAny_kid (s : Sys) (c : Nat) (q p : Pool) (hk : findIn s.kids c = some q) : setAny s c p = setKid s c p := by
  unfold setAny kid; rw [hk]

theorem setAny_orph (s : Sys) (c : Nat) (p : Pool) (hk : findIn s.kids c = none) : setAny s c p = setOrphan s c p := by
  unfold setAny kid; rw [hk]

theorem kidsOk_setKid (s : Sys) (c : Nat) (p : Pool) (ok : KidsOk s) : KidsOk (setKid s c p) := by
  refine kidsOk_of_sub s _ ok rfl ?_
  show ((setIn s.kids c p ++ s.orphans).map (·.1)).Sublist _
  rw [List.map_append, setIn_keys, ← List.map_append]

theorem kidsOk_setOrphan (s : Sys) (c : Nat) (p : Pool) (ok : KidsOk s) : KidsOk (setOrphan s c p) := by
  refine kidsOk_of_sub s _ ok rfl ?_
  show ((s.kids ++ setIn s.orphans c p).map (·.1)).Sublist _
  rw [List.map_append, setIn_keys, ← List.map_append]

theorem kidsOk_setAny (s : Sys) (c : Nat) (p : Pool) (ok : KidsOk s) : KidsOk (setAny s c p) := by
  unfold setAny; split
  · exact kidsOk_setKid s c p ok
  · exact kidsOk_setOrphan s c p ok

/-- setting the user data through a child handle (attached child or orphan) frees that pool's previous user data and
takes the new one -/
theorem held_kidUdSet (s : Sys) (c id : Nat) (ok : KidsOk s) (s' : Sys) (f : List Nat)
    (hk : kidUdSet s c id = some (s', f)) :
    KidsOk s' ∧ (↑f : Multiset Nat) + held s' = held s + ↑[id] := by
  unfold kidUdSet at hk
  cases hq : lookup s c with
  | none => rw [hq] at hk; simp at hk
  | some q =>
    rw [hq] at hk
    simp only [Option.map_some, Option.some.injEq, Prod.mk.injEq] at hk
    obtain ⟨hs', hf⟩ := hk
    rw [← hs', ← hf]
    refine ⟨kidsOk_setAny s c _ ok, ?_⟩
    unfold lookup kid orphan at hq
    cases hkk : findIn s.kids c with
    | some q' =>
      rw [hkk] at hq
      simp only [Option.some_or, Option.some.injEq] at hq
      subst hq
      rw [setAny_kid s c q' _ hkk]
      have := heldK_setIn_ud s.kids c q' id ok.kids hkk
      show (↑(udSet q' id).2 : Multiset Nat) + (heldK (setIn s.kids c (udSet q' id).1) + ↑s.main.ud.toList + heldK s.orphans) =
        heldK s.kids + ↑s.main.ud.toList + heldK s.orphans + ↑[id]
      calc (↑(udSet q' id).2 : Multiset Nat) + (heldK (setIn s.kids c (udSet q' id).1) + ↑s.main.ud.toList + heldK s.orphans)
          = (↑(udSet q' id).2 + heldK (setIn s.kids c (udSet q' id).1)) + ↑s.main.ud.toList + heldK s.orphans := by abel
        _ = (heldK s.kids + ↑[id]) + ↑s.main.ud.toList + heldK s.orphans := by rw [this]
        _ = _ := by abel
    | none =>
      rw [hkk] at hq
      simp only [Option.none_or] at hq
      rw [setAny_orph s c _ hkk]
      have := heldK_setIn_ud s.orphans c q id ok.orphans hq
      show (↑(udSet q id).2 : Multiset Nat) + (heldK s.kids + ↑s.main.ud.toList + heldK (setIn s.orphans c (udSet q id).1)) =
        heldK s.kids + ↑s.main.ud.toList + heldK s.orphans + ↑[id]
      calc (↑(udSet q id).2 : Multiset Nat) + (heldK s.kids + ↑s.main.ud.toList + heldK (setIn s.orphans c (udSet q id).1))
          = heldK s.kids + ↑s.main.ud.toList + (↑(udSet q id).2 + heldK (setIn s.orphans c (udSet q id).1)) := by abel
        _ = heldK s.kids + ↑s.main.ud.toList + (heldK s.orphans + ↑[id]) := by rw [this]
        _ = _ := by abel

/-- `iwpool_ref` through a child handle moves no ownership -/
theorem held_refKid (s : Sys) (c : Nat) (ok : KidsOk s) (s' : Sys) (n : Nat) (hk : refKid s c = some (s', n)) :
    KidsOk s' ∧ held s' = held s := by
  unfold refKid at hk
  cases hq : lookup s c with
  | none => rw [hq] at hk; simp at hk
  | some q =>
    rw [hq] at hk
    simp only [Option.map_some, Option.some.injEq, Prod.mk.injEq] at hk
    rw [← hk.1]
    refine ⟨kidsOk_setAny s c _ ok, ?_⟩
    unfold lookup kid orphan at hq
    cases hkk : findIn s.kids c with
    | some q' =>
      rw [hkk] at hq
      simp only [Option.some_or, Option.some.injEq] at hq
      subst hq
      rw [setAny_kid s c q' _ hkk]
      show heldK (setIn s.kids c _) + ↑s.main.ud.toList + heldK s.orphans = _
      rw [heldK_setIn_same s.kids c q' { q' with refs := q'.refs + 1 } ok.kids hkk rfl]; rfl
    | none =>
      rw [hkk] at hq
      simp only [Option.none_or] at hq
      rw [setAny_orph s c _ hkk]
      show heldK s.kids + ↑s.main.ud.toList + heldK (setIn s.orphans c _) = _
      rw [heldK_setIn_same s.orphans c q { q with refs := q.refs + 1 } ok.orphans hq rfl]; rfl

/-! ### `iwpool_destroy` of the parent -/

theorem survivors_cons_live (p : Nat × Pool) (rest : List (Nat × Pool)) (hp : 1 < p.2.refs) :
    survivors (p :: rest) = (p.1, unref p.2) :: survivors rest := by
  simp [survivors, hp]

theorem survivors_cons_dead (p : Nat × Pool) (rest : List (Nat × Pool)) (hp : ¬ 1 < p.2.refs) :
    survivors (p :: rest) = survivors rest := by
  simp [survivors, hp]

theorem kidsFreed_cons_live (p : Nat × Pool) (rest : List (Nat × Pool)) (hp : 1 < p.2.refs) :
    kidsFreed (p :: rest) = kidsFreed rest := by
  simp [kidsFreed, hp]

theorem kidsFreed_cons_dead (p : Nat × Pool) (rest : List (Nat × Pool)) (hp : ¬ 1 < p.2.refs) :
    kidsFreed (p :: rest) = p.2.ud.toList ++ kidsFreed rest := by
  simp [kidsFreed, hp]

/-- the children loop of the parent's destroy splits the children's user data: freed with the children on their last
reference, kept by the survivors -/
theorem survivors_split (kids : List (Nat × Pool)) : heldK kids = ↑(kidsFreed kids) + heldK (survivors kids) := by
  induction kids with
  | nil => show heldK [] = ↑([] : List Nat) + heldK []; ms_norm
  | cons p rest ih =>
    by_cases hp : 1 < p.2.refs
    · rw [survivors_cons_live p rest hp, kidsFreed_cons_live p rest hp, heldK_cons, heldK_cons, ih]
      show (↑p.2.ud.toList : Multiset Nat) + _ = _ + (↑p.2.ud.toList + _)
      abel
    · rw [survivors_cons_dead p rest hp, kidsFreed_cons_dead p rest hp, heldK_cons, ih, ← Multiset.coe_add]
      abel

theorem survivors_keys (kids : List (Nat × Pool)) : ((survivors kids).map (·.1)).Sublist (kids.map (·.1)) := by
  unfold survivors
  rw [List.map_map]
  exact (List.filter_sublist).map _

/-- survivors: exactly the children somebody else still referenced, each with one reference fewer and its user data -/
theorem mem_survivors (kids : List (Nat × Pool)) (h : Nat) (q : Pool) :
    (h, q) ∈ survivors kids ↔ ∃ q0, (h, q0) ∈ kids ∧ 1 < q0.refs ∧ q = unref q0 := by
  unfold survivors
  simp only [List.mem_map, List.mem_filter, decide_eq_true_eq, Prod.mk.injEq]
  constructor
  · rintro ⟨p, ⟨hp, hr⟩, rfl, rfl⟩; exact ⟨p.2, hp, hr, rfl⟩
  · rintro ⟨q0, hp, hr, rfl⟩; exact ⟨(h, q0), ⟨hp, hr⟩, rfl, rfl⟩

theorem destroy_last (s : Sys) (h : ¬ s.main.refs > 1) :
    destroy s = ({ s with main := { s.main with ud := none }, kids := [], orphans := survivors s.kids ++ s.orphans, gone := true },
                 some (kidsFreed s.kids ++ s.main.ud.toList)) := by
  unfold destroy; rw [if_neg h]

/-- `iwpool_destroy` of the parent dropping the last reference: freed + held after = held before; the orphans keep theirs -/
theorem held_destroy (s : Sys) (s' : Sys) (f : List Nat) (h : destroy s = (s', some f)) :
    (↑f : Multiset Nat) + held s' = held s ∧ (KidsOk s → KidsOk s') ∧ GoneOk s' ∧
    f = kidsFreed s.kids ++ s.main.ud.toList ∧ s'.orphans = survivors s.kids ++ s.orphans ∧ s'.gone = true := by
  by_cases hr : s.main.refs > 1
  · unfold destroy at h; rw [if_pos hr] at h; simp at h
  · rw [destroy_last s hr] at h
    simp only [Prod.mk.injEq, Option.some.injEq] at h
    obtain ⟨rfl, rfl⟩ := h
    refine ⟨?_, fun ok => kidsOk_of_sub s _ ok rfl ?_, fun _ => ⟨rfl, rfl⟩, rfl, rfl, rfl⟩
    · show (↑(kidsFreed s.kids ++ s.main.ud.toList) : Multiset Nat) + (heldK [] + ↑([] : List Nat) + heldK (survivors s.kids ++ s.orphans)) =
        heldK s.kids + ↑s.main.ud.toList + heldK s.orphans
      rw [heldK_append, heldK_nil, survivors_split s.kids, ← Multiset.coe_add]
      ms_norm; abel
    · show ((([] : List (Nat × Pool)) ++ (survivors s.kids ++ s.orphans)).map (·.1)).Sublist _
      rw [List.nil_append, List.map_append, List.map_append]
      exact (survivors_keys s.kids).append (List.Sublist.refl _)

theorem destroy_unref (s : Sys) (s' : Sys) (h : destroy s = (s', none)) :
    held s' = held s ∧ (KidsOk s → KidsOk s') ∧ s'.gone = s.gone ∧ 1 < s.main.refs := by
  unfold destroy at h
  split at h
  · simp only [Prod.mk.injEq, and_true] at h
    rw [← h]; exact ⟨rfl, fun ok => ok, rfl, by assumption⟩
  · simp at h

/-! ### after the main pool is gone: calls through child handles leave the (empty) main part alone -/

theorem destroyKid_frame (s : Sys) (c : Nat) :
    (destroyKid s c).1.gone = s.gone ∧ (destroyKid s c).1.main = s.main ∧ (s.kids = [] → (destroyKid s c).1.kids = []) := by
  cases h1 : destroyIn s.kids c with
  | some r =>
    obtain ⟨k, b, f⟩ := r
    rw [destroyKid_kids s c k b f h1]
    refine ⟨rfl, rfl, fun e => ?_⟩
    rw [e] at h1; simp [destroyIn, findIn] at h1
  | none =>
    cases h2 : destroyIn s.orphans c with
    | some r => obtain ⟨o, b, f⟩ := r; rw [destroyKid_orph s c o b f h1 h2]; exact ⟨rfl, rfl, fun e => e⟩
    | none => rw [destroyKid_none s c h1 h2]; exact ⟨rfl, rfl, fun e => e⟩

theorem setAny_frame (s : Sys) (c : Nat) (p : Pool) :
    (setAny s c p).gone = s.gone ∧ (setAny s c p).main = s.main ∧ (s.kids = [] → (setAny s c p).kids = []) := by
  unfold setAny; split
  · refine ⟨rfl, rfl, fun e => ?_⟩
    show setIn s.kids c p = []
    rw [e]; rfl
  · exact ⟨rfl, rfl, fun e => e⟩

theorem goneOk_frame (s s' : Sys) (g : GoneOk s) (h : s'.gone = s.gone ∧ s'.main = s.main ∧ (s.kids = [] → s'.kids = [])) :
    GoneOk s' := by
  intro hg
  rw [h.1] at hg
  obtain ⟨a, b⟩ := g hg
  exact ⟨h.2.2 a, by rw [h.2.1]; exact b⟩

theorem goneOk_destroyKid (s : Sys) (c : Nat) (g : GoneOk s) : GoneOk (destroyKid s c).1 :=
  goneOk_frame s _ g (destroyKid_frame s c)

theorem goneOk_kidUdSet (s : Sys) (c id : Nat) (g : GoneOk s) (s' : Sys) (f : List Nat)
    (hk : kidUdSet s c id = some (s', f)) : GoneOk s' := by
  unfold kidUdSet at hk
  cases hq : lookup s c with
  | none => rw [hq] at hk; simp at hk
  | some q =>
    rw [hq] at hk
    simp only [Option.map_some, Option.some.injEq, Prod.mk.injEq] at hk
    rw [← hk.1]; exact goneOk_frame s _ g (setAny_frame s c _)

theorem goneOk_refKid (s : Sys) (c : Nat) (g : GoneOk s) (s' : Sys) (n : Nat) (hk : refKid s c = some (s', n)) : GoneOk s' := by
  unfold refKid at hk
  cases hq : lookup s c with
  | none => rw [hq] at hk; simp at hk
  | some q =>
    rw [hq] at hk
    simp only [Option.map_some, Option.some.injEq, Prod.mk.injEq] at hk
    rw [← hk.1]; exact goneOk_frame s _ g (setAny_frame s c _)

theorem goneOk_of_alive (s : Sys) (h : s.gone = false) : GoneOk s := by
  intro hg; rw [h] at hg; cases hg

end Pool
end IwModel
