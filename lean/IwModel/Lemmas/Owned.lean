import IwModel.Lemmas.HMapRef
import IwModel.Lemmas.Arr
import IwModel.Model.XStr
import IwModel.Model.Pool
import Mathlib.Algebra.Order.Group.Multiset
import Mathlib.Tactic.Abel
/-!
Ownership accounting (`freed_exactly_once`): for each container that owns elements, one call moves tokens
between three piles - taken over from the caller, handed to the free callback, handed back to the caller - and
the tokens the container still holds.  Every lemma here has the shape

  `freed + back + held' = held + taken`      (multisets)

so that over a history ending in destroy (which frees what is held) `freed + back = taken`.
-/
set_option linter.unusedSimpArgs false
set_option linter.unusedSectionVars false
namespace IwModel

/-- the three piles of one call or of a whole history -/
structure Ledger (τ : Type) where
  /-- owned elements inserted: ownership passed from the caller to the container -/
  taken : List τ := []
  /-- elements handed to the free callback (or freed by the container itself) -/
  freed : List τ := []
  /-- elements handed back to the caller, who owns them again -/
  back : List τ := []

namespace Ledger
variable {τ : Type}
def add (a b : Ledger τ) : Ledger τ := { taken := a.taken ++ b.taken, freed := a.freed ++ b.freed, back := a.back ++ b.back }
def map {σ : Type} (f : τ → σ) (a : Ledger τ) : Ledger σ := { taken := a.taken.map f, freed := a.freed.map f, back := a.back.map f }
/-- nothing is lost, nothing is freed twice -/
def Balanced (a : Ledger τ) : Prop := (a.freed : Multiset τ) + (a.back : Multiset τ) = (a.taken : Multiset τ)

theorem Balanced.map {σ : Type} (f : τ → σ) {a : Ledger τ} (h : a.Balanced) : (a.map f).Balanced := by
  unfold Balanced at *
  show ((a.freed.map f : List σ) : Multiset σ) + ((a.back.map f : List σ) : Multiset σ) = ((a.taken.map f : List σ) : Multiset σ)
  rw [← Multiset.map_coe, ← Multiset.map_coe, ← Multiset.map_coe, ← Multiset.map_add, h]
/-- chaining: a call that turns the held multiset `H` into `H'`, followed by a history that is balanced over `H'` -/
theorem add_balance (L1 L2 : Ledger τ) (H H' : Multiset τ)
    (b1 : (↑L1.freed : Multiset τ) + ↑L1.back + H' = H + ↑L1.taken)
    (b2 : (↑L2.freed : Multiset τ) + ↑L2.back = ↑L2.taken + H') :
    (↑(L1.add L2).freed : Multiset τ) + ↑(L1.add L2).back = ↑(L1.add L2).taken + H := by
  show (↑(L1.freed ++ L2.freed) : Multiset τ) + ↑(L1.back ++ L2.back) = ↑(L1.taken ++ L2.taken) + H
  rw [← Multiset.coe_add, ← Multiset.coe_add, ← Multiset.coe_add]
  calc (↑L1.freed : Multiset τ) + ↑L2.freed + (↑L1.back + ↑L2.back)
      = (↑L1.freed + ↑L1.back) + (↑L2.freed + ↑L2.back) := by abel
    _ = (↑L1.freed + ↑L1.back) + (↑L2.taken + H') := by rw [b2]
    _ = (↑L1.freed + ↑L1.back + H') + ↑L2.taken := by abel
    _ = (H + ↑L1.taken) + ↑L2.taken := by rw [b1]
    _ = _ := by abel
end Ledger

/-- normalise empty piles -/
macro "ms_norm" : tactic => `(tactic| simp only [Multiset.coe_nil, zero_add, add_zero])

/-! ## hash map -/
namespace HMap
variable {κ : Type} [DecidableEq κ]

/-- a ghost association list for the key → value function of a reference state -/
def AL (s : Ref κ) (al : List (κ × Nat)) : Prop :=
  (al.map (·.1)).Nodup ∧ ∀ k v, (k, v) ∈ al ↔ s.f k = some v

/-- the tokens of one stored pair / of all stored pairs -/
def toks (own : Bool) (k : κ) (v : Nat) : Multiset (Tok κ) := ↑(freeToks own (some k) v)
def held (own : Bool) (al : List (κ × Nat)) : Multiset (Tok κ) :=
  ↑(al.flatMap fun kv => freeToks own (some kv.1) kv.2)

theorem held_nil (own : Bool) : held own ([] : List (κ × Nat)) = 0 := rfl
theorem held_cons (own : Bool) (k : κ) (v : Nat) (al : List (κ × Nat)) :
    held own ((k, v) :: al) = toks own k v + held own al := by
  unfold held toks; rw [List.flatMap_cons, ← Multiset.coe_add]

theorem AL.congr {s s' : Ref κ} {al : List (κ × Nat)} (h : AL s al) (hf : ∀ k, s'.f k = s.f k) : AL s' al :=
  ⟨h.1, fun k v => by rw [hf]; exact h.2 k v⟩

theorem filter_ne_self (al : List (κ × Nat)) (k : κ) (h : k ∉ al.map (·.1)) :
    al.filter (fun kv => decide (kv.1 ≠ k)) = al := by
  rw [List.filter_eq_self]
  intro kv hkv
  have : kv.1 ≠ k := fun e => h (e ▸ List.mem_map_of_mem hkv)
  simpa using this

/-- taking the pair of key `k` out of a duplicate-free association list -/
theorem held_extract (own : Bool) (k : κ) (v : Nat) : ∀ (al : List (κ × Nat)), (al.map (·.1)).Nodup → (k, v) ∈ al →
    held own al = toks own k v + held own (al.filter (fun kv => decide (kv.1 ≠ k))) := by
  intro al
  induction al with
  | nil => intro _ h; simp at h
  | cons p rest ih =>
    intro nd hm
    obtain ⟨k', v'⟩ := p
    rw [List.map_cons, List.nodup_cons] at nd
    by_cases hk : k' = k
    · subst hk
      have hv : v' = v := by
        rcases List.mem_cons.mp hm with e | e
        · exact (Prod.mk.inj e).2.symm
        · exact absurd (List.mem_map_of_mem (f := (·.1)) e) nd.1
      subst hv
      rw [List.filter_cons]
      simp only [ne_eq, not_true_eq_false, decide_false, Bool.false_eq_true, if_false]
      rw [filter_ne_self rest k' nd.1, held_cons]
    · have hm' : (k, v) ∈ rest := by
        rcases List.mem_cons.mp hm with e | e
        · exact absurd (Prod.mk.inj e).1.symm hk
        · exact e
      rw [List.filter_cons]
      have : decide ((k', v').1 ≠ k) = true := by simpa using hk
      rw [if_pos this, held_cons, held_cons, ih nd.2 hm']
      abel

theorem AL.del {s : Ref κ} {al : List (κ × Nat)} (h : AL s al) (own : Bool) (k : κ) (v : Nat) (hv : s.f k = some v) :
    AL (s.del k) (al.filter (fun kv => decide (kv.1 ≠ k))) ∧
    held own al = toks own k v + held own (al.filter (fun kv => decide (kv.1 ≠ k))) := by
  refine ⟨⟨?_, ?_⟩, held_extract own k v al h.1 ((h.2 k v).mpr hv)⟩
  · exact h.1.sublist ((List.filter_sublist).map _)
  · intro k' v'
    rw [List.mem_filter, h.2]
    show _ ↔ (if k' = k then none else s.f k') = some v'
    by_cases hk : k' = k <;> simp [hk]

theorem AL.set {s : Ref κ} {al : List (κ × Nat)} (h : AL s al) (own : Bool) (k : κ) (v : Nat) :
    AL (s.set k v) ((k, v) :: al.filter (fun kv => decide (kv.1 ≠ k))) ∧
    held own al + toks own k v =
      (match s.f k with | some old => toks own k old | none => 0) +
        held own ((k, v) :: al.filter (fun kv => decide (kv.1 ≠ k))) := by
  refine ⟨⟨?_, ?_⟩, ?_⟩
  · rw [List.map_cons, List.nodup_cons]
    refine ⟨?_, h.1.sublist ((List.filter_sublist).map _)⟩
    intro hm
    obtain ⟨kv, hkv, e⟩ := List.mem_map.mp hm
    have := (List.mem_filter.mp hkv).2
    simp at this
    exact this e
  · intro k' v'
    rw [List.mem_cons, List.mem_filter, h.2]
    show _ ↔ (if k' = k then some v else s.f k') = some v'
    by_cases hk : k' = k
    · subst hk; simp; exact eq_comm
    · simp [hk]
  · rw [held_cons]
    cases hf : s.f k with
    | none =>
      have hk : k ∉ al.map (·.1) := by
        intro hm
        obtain ⟨kv, hkv, e⟩ := List.mem_map.mp hm
        have := (h.2 kv.1 kv.2).mp hkv
        rw [e, hf] at this; simp at this
      rw [filter_ne_self al k hk]
      simp only
      abel
    | some old =>
      simp only
      rw [held_extract own k old al h.1 ((h.2 k old).mpr hf)]
      abel

theorem evict_own : ∀ (fuel : Nat) (s : Ref κ) (acc : List (Tok κ)), (Ref.evict fuel s acc).1.own = s.own := by
  intro fuel
  induction fuel with
  | zero => intro s acc; rfl
  | succ fuel ih =>
    intro s acc
    unfold Ref.evict
    split
    · rfl
    · split
      · split
        · rfl
        · rw [ih]; rfl
      · rfl

/-- the eviction loop hands over exactly the pairs it removes -/
theorem AL.evict : ∀ (fuel : Nat) (s : Ref κ) (acc : List (Tok κ)) (al : List (κ × Nat)), AL s al →
    ∃ al', AL (Ref.evict fuel s acc).1 al' ∧
      (↑(Ref.evict fuel s acc).2 : Multiset (Tok κ)) + held s.own al' = ↑acc + held s.own al := by
  intro fuel
  induction fuel with
  | zero => intro s acc al h; exact ⟨al, h, rfl⟩
  | succ fuel ih =>
    intro s acc al h
    unfold Ref.evict
    split
    · exact ⟨al, h, rfl⟩
    · rename_i k rest hl
      split
      · split
        · exact ⟨al, h, rfl⟩
        · rename_i v hv
          obtain ⟨h', e⟩ := h.del s.own k v hv
          obtain ⟨al', a1, a2⟩ := ih (s.del k) (acc ++ freeToks s.own (some k) v) _ h'
          refine ⟨al', a1, ?_⟩
          have ho : (s.del k).own = s.own := rfl
          rw [ho] at a2
          rw [a2, e, ← Multiset.coe_add]
          unfold toks
          abel
      · exact ⟨al, h, rfl⟩

theorem touchIfOn_f (s : Ref κ) (k : κ) : (s.touchIfOn k).f = s.f ∧ (s.touchIfOn k).own = s.own := by
  unfold Ref.touchIfOn; split <;> exact ⟨rfl, rfl⟩

/-- `put`: the new pair is taken over; a replaced pair and the eviction victims are freed -/
theorem AL.put {s : Ref κ} {al : List (κ × Nat)} (h : AL s al) (k : κ) (v : Nat) :
    (s.put k v).1.own = s.own ∧
    ∃ al', AL (s.put k v).1 al' ∧
      (↑(s.put k v).2 : Multiset (Tok κ)) + held s.own al' = held s.own al + toks s.own k v := by
  obtain ⟨h1, e1⟩ := h.set s.own k v
  have h2 : AL ((s.set k v).touchIfOn k) ((k, v) :: al.filter (fun kv => decide (kv.1 ≠ k))) :=
    h1.congr (fun x => by rw [(touchIfOn_f _ _).1])
  have ho : ((s.set k v).touchIfOn k).own = s.own := (touchIfOn_f _ _).2
  unfold Ref.put
  refine ⟨by rw [evict_own]; exact ho, ?_⟩
  obtain ⟨al', a1, a2⟩ := AL.evict (((s.set k v).touchIfOn k).lru.length + 1) ((s.set k v).touchIfOn k)
    (match s.f k with | some old => freeToks s.own (some k) old | none => []) _ h2
  refine ⟨al', a1, ?_⟩
  rw [ho] at a2
  refine Eq.trans a2 ?_
  rw [e1]
  cases s.f k <;> rfl

theorem AL.remove {s : Ref κ} {al : List (κ × Nat)} (h : AL s al) (k : κ) :
    (s.remove k).1.own = s.own ∧
    ∃ al', AL (s.remove k).1 al' ∧ (↑(s.remove k).2.2 : Multiset (Tok κ)) + held s.own al' = held s.own al := by
  unfold Ref.remove
  cases hf : s.f k with
  | none => exact ⟨rfl, al, h, by simp⟩
  | some v =>
    obtain ⟨h', e⟩ := h.del s.own k v hf
    exact ⟨rfl, _, h', by rw [e]; rfl⟩

/-- `rename`: the new key is taken over only when the old key exists; the old key is freed, and so is a pair
already stored under the new key; the value moves along -/
theorem AL.rename {s : Ref κ} {al : List (κ × Nat)} (h : AL s al) (a b : κ) :
    (s.rename a b).1.own = s.own ∧
    ∃ al', AL (s.rename a b).1 al' ∧
      (↑(s.rename a b).2 : Multiset (Tok κ)) + held s.own al' =
        held s.own al + (if (s.f a).isSome then toks s.own b 0 else 0) := by
  unfold Ref.rename
  cases hf : s.f a with
  | none => exact ⟨rfl, al, h, by simp⟩
  | some v =>
    obtain ⟨h1, e1⟩ := h.del s.own a v hf
    obtain ⟨h2, e2⟩ := h1.set s.own b v
    simp only [Option.isSome_some, if_true]
    refine ⟨(touchIfOn_f _ _).2, _, h2.congr (fun x => by rw [(touchIfOn_f _ _).1]), ?_⟩
    rw [← Multiset.coe_add, e1]
    have hsplit : ∀ (k : κ) (w : Nat), toks s.own k w = toks s.own k 0 + (((if w = 0 then [] else [Tok.v w] : List (Tok κ))) : Multiset (Tok κ)) := by
      intro k w
      unfold toks freeToks
      rw [← Multiset.coe_add]; simp
    have e2' : held s.own (al.filter fun kv => decide (kv.1 ≠ a)) + toks s.own b v =
        (((match (s.del a).f b with | some old => freeToks s.own (some b) old | none => [] : List (Tok κ))) : Multiset (Tok κ)) +
          held s.own ((b, v) :: (al.filter fun kv => decide (kv.1 ≠ a)).filter fun kv => decide (kv.1 ≠ b)) := by
      rw [e2]; cases (s.del a).f b <;> rfl
    have t1 := hsplit a v
    have t2 := hsplit b v
    rw [t1]
    rw [t2] at e2'
    show (toks s.own a 0) + _ + _ = _
    generalize held s.own ((b, v) :: (al.filter fun kv => decide (kv.1 ≠ a)).filter fun kv => decide (kv.1 ≠ b)) = H at e2' ⊢
    generalize (((match (s.del a).f b with | some old => freeToks s.own (some b) old | none => [] : List (Tok κ))) : Multiset (Tok κ)) = T at e2' ⊢
    generalize held s.own (al.filter fun kv => decide (kv.1 ≠ a)) = H1 at e2' ⊢
    generalize (((if v = 0 then [] else [Tok.v v] : List (Tok κ))) : Multiset (Tok κ)) = V at e2' ⊢
    have : T + H = H1 + (toks s.own b 0 + V) := e2'.symm
    calc toks s.own a 0 + T + H = toks s.own a 0 + (T + H) := by abel
      _ = toks s.own a 0 + (H1 + (toks s.own b 0 + V)) := by rw [this]
      _ = toks s.own a 0 + V + H1 + toks s.own b 0 := by abel

/-- the pairs the table iterates over are the pairs of the ghost list, as multisets -/
theorem allToks_held {h : κ → Nat} {m : Map κ} {s : Ref κ} (r : R h m s) {al : List (κ × Nat)} (a : AL s al) :
    (↑(allToks m) : Multiset (Tok κ)) = held s.own al := by
  rw [allToks_eq, r.own]
  unfold held
  rw [Multiset.coe_eq_coe]
  apply List.Perm.flatMap_right
  obtain ⟨t1, t2, _⟩ := toList_spec r.wf
  rw [List.perm_ext_iff_of_nodup (List.Nodup.of_map _ t2) (List.Nodup.of_map _ a.1)]
  intro kv
  obtain ⟨k, v⟩ := kv
  rw [t1, r.maps, a.2]

theorem locate_isSome {h : κ → Nat} {m : Map κ} {s : Ref κ} (r : R h m s) (a : κ) :
    (locate m a (h a)).isSome = (s.f a).isSome := by
  cases hloc : locate m a (h a) with
  | none => rw [r.none_of_not_maps a (locate_none r.wf a hloc)]; rfl
  | some p =>
    obtain ⟨bi, ei⟩ := p
    obtain ⟨_, e, he, hk⟩ := locate_some a hloc
    have : s.f a = some e.val := (r.maps a e.val).1 ⟨e, List.mem_of_getElem? he, hk, rfl⟩
    rw [this]; rfl

end HMap

/-! ## list of owned items (`iwlist`) -/
namespace Arr
variable {α : Type}

/-- the item a call hands to the caller, as a list of tokens -/
def itemL : Option (Option α) → List α
  | some (some y) => [y]
  | _ => []

theorem itemL_get (w : List α) (i : Nat) (h : i < w.length) : itemL (some w[i]?) = [w[i]] := by
  rw [List.getElem?_eq_getElem h]; rfl

theorem ms_insert (w : List α) (i : Nat) (x : α) :
    (↑(w.take i ++ x :: w.drop i) : Multiset α) = ↑w + ↑[x] := by
  rw [Multiset.coe_add, Multiset.coe_eq_coe]
  refine List.perm_middle.trans ?_
  rw [List.take_append_drop]
  exact (List.perm_append_singleton x w).symm

theorem split_at (w : List α) (i : Nat) (h : i < w.length) : w = w.take i ++ w[i] :: w.drop (i + 1) := by
  rw [← List.drop_eq_getElem_cons h, List.take_append_drop]

theorem ms_remove (w : List α) (i : Nat) (h : i < w.length) :
    (↑w : Multiset α) = ↑(w.take i ++ w.drop (i + 1)) + ↑[w[i]] := by
  conv => lhs; rw [split_at w i h]
  rw [Multiset.coe_add, Multiset.coe_eq_coe]
  exact List.perm_middle.trans (List.perm_append_singleton _ _).symm

theorem ms_set (w : List α) (i : Nat) (x : α) (h : i < w.length) :
    (↑(w.set i x) : Multiset α) + ↑[w[i]] = ↑w + ↑[x] := by
  have hl : i < (w.set i x).length := by simp; exact h
  have e1 := ms_remove (w.set i x) i hl
  have e2 := ms_remove w i h
  rw [List.take_set_of_le (Nat.le_refl _), List.drop_set_of_lt (Nat.lt_succ_self _), List.getElem_set_self] at e1
  rw [e1]
  conv => rhs; rw [e2]
  abel

theorem ms_cons (w : List α) (x : α) : (↑(x :: w) : Multiset α) = ↑w + ↑[x] := by
  rw [Multiset.coe_add, Multiset.coe_eq_coe]
  exact (List.perm_append_singleton x w).symm

theorem ms_pop (w : List α) (n : Nat) (hn : w.length = n) (h : 0 < n) :
    (↑w : Multiset α) = ↑(w.take (n - 1)) + ↑[w[n - 1]'(by omega)] := by
  have := ms_remove w (n - 1) (by omega)
  have e : n - 1 + 1 = n := by omega
  rw [e, List.drop_of_length_le (by omega), List.append_nil] at this
  exact this

theorem ms_shift (w : List α) (h : 0 < w.length) : (↑w : Multiset α) = ↑(w.drop 1) + ↑[w[0]] := by
  have := ms_remove w 0 h
  rw [List.take_zero, List.nil_append] at this
  exact this

end Arr

/-! ## user data of `iwxstr` and `iwpool`, child pools -/
namespace Pool

/-- user data held by the attached children -/
def heldK (kids : List (Nat × Pool)) : Multiset Nat := ↑(kids.flatMap (·.2.ud.toList))
/-- everything a pool (with its children) will hand to free functions when destroyed -/
def held (s : Sys) : Multiset Nat := heldK s.kids + ↑s.main.ud.toList

/-- handles of attached children are distinct and below the counter -/
def KidsOk (s : Sys) : Prop := (s.kids.map (·.1)).Nodup ∧ ∀ p ∈ s.kids, p.1 < s.next

theorem heldK_cons (p : Nat × Pool) (kids : List (Nat × Pool)) :
    heldK (p :: kids) = ↑p.2.ud.toList + heldK kids := by
  unfold heldK; rw [List.flatMap_cons, ← Multiset.coe_add]

theorem filter_ne_self (kids : List (Nat × Pool)) (h : Nat) (hn : h ∉ kids.map (·.1)) :
    kids.filter (fun p => decide (p.1 ≠ h)) = kids := by
  rw [List.filter_eq_self]
  intro p hp
  have : p.1 ≠ h := fun e => hn (e ▸ List.mem_map_of_mem hp)
  simpa using this

theorem map_ne_self (kids : List (Nat × Pool)) (h : Nat) (c : Pool) (hn : h ∉ kids.map (·.1)) :
    (kids.map fun (p : Nat × Pool) => if p.1 = h then (p.1, c) else (p.1, p.2)) = kids := by
  induction kids with
  | nil => rfl
  | cons p rest ih =>
    rw [List.map_cons, List.mem_cons, not_or] at hn
    rw [List.map_cons, ih hn.2, if_neg (fun e => hn.1 e.symm)]

/-- the child with handle `h`: taking it out / replacing it changes the held user data by that child's only -/
theorem kid_extract (h : Nat) (q : Pool) : ∀ (kids : List (Nat × Pool)), (kids.map (·.1)).Nodup →
    (kids.find? (·.1 = h)).map (·.2) = some q →
    heldK kids = ↑q.ud.toList + heldK (kids.filter (fun p => decide (p.1 ≠ h))) ∧
    ∀ c : Pool, heldK (kids.map fun (p : Nat × Pool) => if p.1 = h then (p.1, c) else (p.1, p.2)) + ↑q.ud.toList =
      heldK kids + ↑c.ud.toList := by
  intro kids
  induction kids with
  | nil => intro _ hf; simp at hf
  | cons p rest ih =>
    intro nd hf
    rw [List.map_cons, List.nodup_cons] at nd
    rw [List.find?_cons] at hf
    by_cases hp : p.1 = h
    · have hd : decide (p.1 = h) = true := by simpa using hp
      rw [hd] at hf
      simp only [Option.map_some, Option.some.injEq] at hf
      have hnot : h ∉ rest.map (·.1) := hp ▸ nd.1
      constructor
      · rw [List.filter_cons]
        have : decide (p.1 ≠ h) = false := by simpa using hp
        rw [this]
        simp only [Bool.false_eq_true, if_false]
        rw [filter_ne_self rest h hnot, heldK_cons, hf]
      · intro c
        rw [List.map_cons, if_pos hp, map_ne_self rest h c hnot, heldK_cons, heldK_cons, hf]
        simp only
        abel
    · have hd : decide (p.1 = h) = false := by simpa using hp
      rw [hd] at hf
      obtain ⟨i1, i2⟩ := ih nd.2 hf
      constructor
      · rw [List.filter_cons]
        have : decide (p.1 ≠ h) = true := by simpa using hp
        rw [this]
        simp only [if_true]
        rw [heldK_cons, heldK_cons, i1]
        abel
      · intro c
        rw [List.map_cons, if_neg hp, heldK_cons, heldK_cons]
        have := i2 c
        calc ↑(p.1, p.2).2.ud.toList + heldK (rest.map fun (p : Nat × Pool) => if p.1 = h then (p.1, c) else (p.1, p.2)) + ↑q.ud.toList
            = ↑p.2.ud.toList + (heldK (rest.map fun (p : Nat × Pool) => if p.1 = h then (p.1, c) else (p.1, p.2)) + ↑q.ud.toList) := by abel
          _ = ↑p.2.ud.toList + (heldK rest + ↑c.ud.toList) := by rw [this]
          _ = ↑p.2.ud.toList + heldK rest + ↑c.ud.toList := by abel

theorem kidsOk_attach (s : Sys) (c : Pool) (ok : KidsOk s) : KidsOk (attach s c).1 := by
  unfold attach
  refine ⟨?_, ?_⟩
  · show ((s.next, c) :: s.kids).map (·.1) |>.Nodup
    rw [List.map_cons, List.nodup_cons]
    refine ⟨?_, ok.1⟩
    intro hm
    obtain ⟨p, hp, e⟩ := List.mem_map.mp hm
    have := ok.2 p hp
    simp only at e
    omega
  · intro p hp
    show p.1 < s.next + 1
    rcases List.mem_cons.mp hp with e | e
    · rw [e]; simp
    · have := ok.2 p e; omega

theorem held_attach (s : Sys) (c : Pool) : held (attach s c).1 = held s + ↑c.ud.toList := by
  show heldK ((s.next, c) :: s.kids) + ↑s.main.ud.toList = heldK s.kids + ↑s.main.ud.toList + ↑c.ud.toList
  rw [heldK_cons]; abel

theorem destroyKid_none (s : Sys) (c : Nat) (hq : kid s c = none) : destroyKid s c = (s, []) := by
  unfold destroyKid; rw [hq]

theorem destroyKid_some (s : Sys) (c : Nat) (q : Pool) (hq : kid s c = some q) :
    destroyKid s c = ({ s with kids := s.kids.filter (fun p => decide (p.1 ≠ c)) }, q.ud.toList) := by
  unfold destroyKid; rw [hq]

/-- destroying a child early frees exactly its user data; its siblings stay attached -/
theorem held_destroyKid (s : Sys) (c : Nat) (ok : KidsOk s) :
    KidsOk (destroyKid s c).1 ∧ (↑(destroyKid s c).2 : Multiset Nat) + held (destroyKid s c).1 = held s := by
  cases hq : kid s c with
  | none => rw [destroyKid_none s c hq]; exact ⟨ok, by ms_norm⟩
  | some q =>
    rw [destroyKid_some s c q hq]
    obtain ⟨i1, _⟩ := kid_extract c q s.kids ok.1 hq
    refine ⟨⟨ok.1.sublist ((List.filter_sublist).map _), fun p hp => ok.2 p (List.mem_of_mem_filter hp)⟩, ?_⟩
    show (↑q.ud.toList : Multiset Nat) + (heldK (s.kids.filter (fun p => decide (p.1 ≠ c))) + ↑s.main.ud.toList) =
      heldK s.kids + ↑s.main.ud.toList
    rw [i1]; abel

theorem setKid_kids (s : Sys) (c : Nat) (q' : Pool) :
    (setKid s c q').kids = s.kids.map fun (p : Nat × Pool) => if p.1 = c then (p.1, q') else (p.1, p.2) := by
  unfold setKid
  show List.map _ s.kids = _
  apply List.map_congr_left
  intro p _
  obtain ⟨i, q0⟩ := p
  rfl

/-- setting the user data of a child frees the child's previous user data and takes the new one -/
theorem held_kidUdSet (s : Sys) (c id : Nat) (ok : KidsOk s) (s' : Sys) (f : List Nat)
    (hk : kidUdSet s c id = some (s', f)) :
    KidsOk s' ∧ (↑f : Multiset Nat) + held s' = held s + ↑[id] := by
  unfold kidUdSet at hk
  cases hq : kid s c with
  | none => rw [hq] at hk; simp at hk
  | some q =>
    rw [hq] at hk
    simp only [Option.map_some, Option.some.injEq, Prod.mk.injEq] at hk
    obtain ⟨hs', hf⟩ := hk
    obtain ⟨_, i2⟩ := kid_extract c q s.kids ok.1 hq
    have hkids := setKid_kids s c (udSet q id).1
    have hmain : (setKid s c (udSet q id).1).main = s.main := rfl
    have hnext : (setKid s c (udSet q id).1).next = s.next := rfl
    have hkeys : (setKid s c (udSet q id).1).kids.map (·.1) = s.kids.map (·.1) := by
      rw [hkids, List.map_map]
      apply List.map_congr_left
      intro p _
      simp only [Function.comp]
      split <;> rfl
    rw [← hs', ← hf]
    refine ⟨⟨by rw [hkeys]; exact ok.1, ?_⟩, ?_⟩
    · intro p hp
      rw [hnext]
      have : p.1 ∈ (setKid s c (udSet q id).1).kids.map (·.1) := List.mem_map_of_mem hp
      rw [hkeys] at this
      obtain ⟨p0, hp0, e⟩ := List.mem_map.mp this
      rw [← e]; exact ok.2 p0 hp0
    · have := i2 (udSet q id).1
      have e3 : (↑(udSet q id).1.ud.toList : Multiset Nat) = ↑[id] := rfl
      rw [e3] at this
      show (↑q.ud.toList : Multiset Nat) + (heldK (setKid s c (udSet q id).1).kids + ↑(setKid s c (udSet q id).1).main.ud.toList) =
        heldK s.kids + ↑s.main.ud.toList + ↑[id]
      rw [hkids, hmain]
      calc (↑q.ud.toList : Multiset Nat) + (heldK (s.kids.map fun (p : Nat × Pool) => if p.1 = c then (p.1, (udSet q id).1) else (p.1, p.2)) + ↑s.main.ud.toList)
          = (heldK (s.kids.map fun (p : Nat × Pool) => if p.1 = c then (p.1, (udSet q id).1) else (p.1, p.2)) + ↑q.ud.toList) + ↑s.main.ud.toList := by abel
        _ = (heldK s.kids + ↑[id]) + ↑s.main.ud.toList := by rw [this]
        _ = _ := by abel

/-- `iwpool_destroy` dropping the last reference frees the user data of every attached child and of the pool -/
theorem held_destroy (s : Sys) (s' : Sys) (f : List Nat) (h : destroy s = (s', some f)) : (↑f : Multiset Nat) = held s := by
  unfold destroy at h
  split at h
  · simp at h
  · simp only [Prod.mk.injEq, Option.some.injEq] at h
    rw [← h.2, ← Multiset.coe_add]; rfl

theorem destroy_unref (s : Sys) (s' : Sys) (h : destroy s = (s', none)) : held s' = held s ∧ (KidsOk s → KidsOk s') := by
  unfold destroy at h
  split at h
  · simp only [Prod.mk.injEq, and_true] at h
    rw [← h]; exact ⟨rfl, fun ok => ok⟩
  · simp at h

end Pool
end IwModel
