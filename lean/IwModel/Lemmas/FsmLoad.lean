import IwModel.Lemmas.FsmAlloc
/-! `runs` lists exactly the maximal zero runs; rebuilding the index from the bitmap (`_fsm_load_fsm_lw`)
establishes the index part of the invariant for any bitmap. -/
namespace IwModel.Fsm

/-- what the scan knows at position `i` -/
def CurOk (b : Bits) (i : Nat) : Option Nat → Prop
  | some st => st < i ∧ (∀ j, st ≤ j → j < i → bit b j = false) ∧ (st = 0 ∨ bit b (st - 1) = true)
  | none => i = 0 ∨ bit b (i - 1) = true

theorem runsAux_spec (b : Bits) (f i : Nat) (cur : Option Nat) (acc : List Ext) (hf : f + i = b.size)
    (hc : CurOk b i cur) (x : Ext) :
    x ∈ runsAux b f i cur acc ↔ x ∈ acc ∨ (IsRun b x.1 x.2 ∧ i ≤ x.1 + x.2) := by
  induction f generalizing i cur acc with
  | zero =>
    have hi : i = b.size := by omega
    cases cur with
    | some st =>
      simp only [runsAux, List.mem_reverse, List.mem_cons]
      obtain ⟨h1, h2, h3⟩ := hc
      have hrun : IsRun b st (i - st) := by
        refine ⟨by omega, fun j a c => h2 j a (by omega), h3, ?_⟩
        exact bit_of_size_le _ _ (by omega)
      constructor
      · rintro (e | e)
        · right; subst e; exact ⟨hrun, by simp; omega⟩
        · exact Or.inl e
      · rintro (e | ⟨e1, e2⟩)
        · exact Or.inr e
        · left
          have hl := e1.1
          have hle := e1.end_le_size
          have := IsRun.eq_of_overlap e1 hrun (i - 1) (by omega) (by omega) (by omega) (by omega)
          exact Prod.ext this.1 this.2
    | none =>
      simp only [runsAux, List.mem_reverse]
      constructor
      · exact Or.inl
      · rintro (e | ⟨e1, e2⟩)
        · exact e
        · exfalso
          have hl := e1.1
          have hle := e1.end_le_size
          rcases hc with c | c
          · omega
          · have := e1.2.1 (i - 1) (by omega) (by omega)
            rw [c] at this; cases this
  | succ f ih =>
    simp only [runsAux]
    by_cases hb : bit b i = true
    · simp only [hb, if_true]
      cases cur with
      | some st =>
        simp only
        obtain ⟨h1, h2, h3⟩ := hc
        have hrun : IsRun b st (i - st) := by
          refine ⟨by omega, fun j a c => h2 j a (by omega), h3, ?_⟩
          have : st + (i - st) = i := by omega
          rw [this]; exact hb
        rw [ih (i + 1) none _ (by omega) (Or.inr (by simpa using hb))]
        simp only [List.mem_cons]
        constructor
        · rintro ((e | e) | ⟨e1, e2⟩)
          · right; subst e; exact ⟨hrun, by simp; omega⟩
          · exact Or.inl e
          · exact Or.inr ⟨e1, by omega⟩
        · rintro (e | ⟨e1, e2⟩)
          · exact Or.inl (Or.inr e)
          · by_cases c : x.1 + x.2 = i
            · left; left
              have hl := e1.1
              have := IsRun.eq_of_overlap e1 hrun (i - 1) (by omega) (by omega) (by omega) (by omega)
              exact Prod.ext this.1 this.2
            · exact Or.inr ⟨e1, by omega⟩
      | none =>
        simp only
        rw [ih (i + 1) none _ (by omega) (Or.inr (by simpa using hb))]
        constructor
        · rintro (e | ⟨e1, e2⟩)
          · exact Or.inl e
          · exact Or.inr ⟨e1, by omega⟩
        · rintro (e | ⟨e1, e2⟩)
          · exact Or.inl e
          · right
            refine ⟨e1, ?_⟩
            by_cases c : x.1 + x.2 = i
            · exfalso
              have hl := e1.1
              rcases hc with c0 | c0
              · omega
              · have := e1.2.1 (i - 1) (by omega) (by omega)
                rw [c0] at this; cases this
            · omega
    · have hb' : bit b i = false := by simpa using hb
      simp only [hb', Bool.false_eq_true, if_false]
      have hne : ∀ y : Ext, IsRun b y.1 y.2 → y.1 + y.2 ≠ i := by
        intro y hy e
        have := hy.2.2.2; rw [e, hb'] at this; cases this
      cases cur with
      | some st =>
        simp only
        obtain ⟨h1, h2, h3⟩ := hc
        rw [ih (i + 1) (some st) _ (by omega) ⟨by omega, fun j a c => by
          by_cases e : j = i
          · subst e; exact hb'
          · exact h2 j a (by omega), h3⟩]
        constructor
        · rintro (e | ⟨e1, e2⟩)
          · exact Or.inl e
          · exact Or.inr ⟨e1, by omega⟩
        · rintro (e | ⟨e1, e2⟩)
          · exact Or.inl e
          · exact Or.inr ⟨e1, by have := hne x e1; omega⟩
      | none =>
        simp only
        rw [ih (i + 1) (some i) _ (by omega) ⟨by omega, fun j a c => by
          have e : j = i := by omega
          subst e; exact hb', by
          rcases hc with c | c
          · exact Or.inl c
          · exact Or.inr c⟩]
        constructor
        · rintro (e | ⟨e1, e2⟩)
          · exact Or.inl e
          · exact Or.inr ⟨e1, by omega⟩
        · rintro (e | ⟨e1, e2⟩)
          · exact Or.inl e
          · exact Or.inr ⟨e1, by have := hne x e1; omega⟩

/-- `runs` lists exactly the maximal zero runs of the bitmap -/
theorem mem_runs (b : Bits) (o l : Nat) : (o, l) ∈ runs b ↔ IsRun b o l := by
  unfold runs
  rw [runsAux_spec b b.size 0 none [] (by omega) (Or.inl rfl)]
  simp

theorem foldl_putFbk (l : List Ext) (s0 : St) :
    (l.foldl (fun s r => putFbk s r.1 r.2) s0).bits = s0.bits ∧
    Frame s0 (l.foldl (fun s r => putFbk s r.1 r.2) s0) ∧
    (s0.tree.Pairwise KeyLt → (l.foldl (fun s r => putFbk s r.1 r.2) s0).tree.Pairwise KeyLt) ∧
    (LfOk s0 → LfOk (l.foldl (fun s r => putFbk s r.1 r.2) s0)) ∧
    ∀ x, x ∈ (l.foldl (fun s r => putFbk s r.1 r.2) s0).tree ↔ x ∈ l ∨ x ∈ s0.tree := by
  induction l generalizing s0 with
  | nil => exact ⟨rfl, Frame.refl _, id, id, fun x => by simp⟩
  | cons y ys ih =>
    simp only [List.foldl_cons]
    obtain ⟨a, b, c, d, e⟩ := ih (putFbk s0 y.1 y.2)
    refine ⟨by rw [a, putFbk_bits], (putFbk_frame _ _ _).trans b, fun h => c (sorted_putFbk h _ _),
      fun h => d (putFbk_lf h _ _), fun x => ?_⟩
    rw [e, mem_putFbk, List.mem_cons]
    constructor
    · rintro (h | h | h)
      · exact Or.inl (Or.inr h)
      · exact Or.inl (Or.inl h)
      · exact Or.inr h
    · rintro ((h | h) | h)
      · exact Or.inr (Or.inl h)
      · exact Or.inl h
      · exact Or.inr (Or.inr h)

theorem loadTree_bits (s : St) : (loadTree s).bits = s.bits := by
  unfold loadTree; rw [(foldl_putFbk _ _).1]

theorem loadTree_frame (s : St) : Frame s (loadTree s) := by
  unfold loadTree
  refine Frame.trans ?_ (foldl_putFbk _ _).2.1
  exact ⟨rfl, rfl, rfl, rfl, rfl, rfl⟩

/-- `_fsm_load_fsm_lw`: whatever the state was, the rebuilt index lists exactly the maximal zero runs of the bitmap
    and the cache is valid -/
theorem loadTree_idxOk (s : St) : IdxOk (loadTree s) := by
  have h := foldl_putFbk (runs s.bits) { s with tree := [], lfoff := 0, lflen := 0 }
  refine ⟨?_, ?_, ?_⟩
  · unfold loadTree; exact h.2.2.1 List.Pairwise.nil
  · intro o l
    rw [loadTree_bits]
    unfold loadTree
    rw [h.2.2.2.2, mem_runs]
    simp
  · unfold loadTree; exact h.2.2.2.1 (fun c => absurd rfl c)

end IwModel.Fsm
