// Side translation unit: reaches the file-static `struct iwal` (write-ahead log): its mutex, the
// backup stage, the roll-forward offset, and a record-level skeleton of the log file.
#include "iwal.c"

int __real_pthread_mutex_unlock(pthread_mutex_t*);

void *hxs_wal_mtx(struct iwkv *kv) {
  struct iwal *w = (struct iwal*) kv->dlsnr;
  return w ? (void*) w->mtxp : 0;
}

int hxs_wal_stage(struct iwkv *kv) {
  struct iwal *w = (struct iwal*) kv->dlsnr;
  return w ? (int) w->bkp_stage : 0;
}

int hxs_wal_fd(struct iwkv *kv) {
  struct iwal *w = (struct iwal*) kv->dlsnr;
  return w ? (int) w->fh : -1;
}

int hxs_wal_forcecp(struct iwkv *kv) {
  struct iwal *w = (struct iwal*) kv->dlsnr;
  return w ? (int) w->force_cp : 0;
}

// test-only: force the stage (used to reproduce F25 deterministically)
void hxs_wal_set_stage(struct iwkv *kv, int st) {
  struct iwal *w = (struct iwal*) kv->dlsnr;
  if (w) w->bkp_stage = st;
}

// Writes "rfo=<0|1> buf=<0|1> wal=<skeleton>" where the skeleton has one letter per record of the
// log file: d = run of SET/COPY/WRITE records, Z = RESIZE, S = SAVEPOINT, R = RESET, ! = undecodable tail.
// Caller guarantees no thread is inside the log (threads idle or parked at a gate).
void hxs_wal_obs(struct iwkv *kv, char *out, size_t outsz) {
  struct iwal *w = (struct iwal*) kv->dlsnr;
  if (!w) { snprintf(out, outsz, "nowal"); return; }
  int locked = 0;
  for (int i = 0; i < 200 && !locked; ++i) {    // up to ~0.4 s: the mutex is only held for long by a parked backup
    locked = pthread_mutex_trylock(w->mtxp) == 0;
    if (!locked) usleep(2000);
  }
  off_t fsz = lseek(w->fh, 0, SEEK_END);
  uint8_t *b = malloc(fsz > 0 ? fsz : 1);
  off_t got = 0;
  while (got < fsz) { ssize_t n = pread(w->fh, b + got, fsz - got, got); if (n <= 0) break; got += n; }
  size_t o = 0;
  o += snprintf(out + o, outsz - o, "rfo=%d buf=%s wal=", w->rollforward_offset > 0 ? 1 : 0, locked ? (w->bufpos ? "1" : "0") : "?");
  char last = 0;
  off_t p = 0;
  size_t o0 = o;
  while (p < got && o + 4 < outsz) {
    uint8_t id = b[p];
    off_t av = got - p;
    char c = 0;
    if (id == WOP_SEP) { if (av < (off_t) sizeof(WBSEP)) { c = '!'; p = got; } else p += sizeof(WBSEP); }
    else if (id == WOP_SET) { c = 'd'; p += sizeof(WBSET); }
    else if (id == WOP_COPY) { c = 'd'; p += sizeof(WBCOPY); }
    else if (id == WOP_WRITE) {
      WBWRITE wb;
      if (av < (off_t) sizeof(wb)) { c = '!'; p = got; }
      else { memcpy(&wb, b + p, sizeof(wb)); p += sizeof(wb) + wb.len; c = 'd'; }
    } else if (id == WOP_RESIZE) { c = 'Z'; p += sizeof(WBRESIZE); }
    else if (id == WOP_SAVEPOINT) { c = 'S'; p += sizeof(WBSAVEPOINT); }
    else if (id == WOP_RESET) { c = 'R'; p += sizeof(WBRESET); }
    else { c = '!'; p = got; }
    if (c && !(c == 'd' && last == 'd')) out[o++] = c;
    if (c) last = c;
  }
  if (o == o0) out[o++] = '-';
  out[o] = 0;
  free(b);
  if (locked) __real_pthread_mutex_unlock(w->mtxp);
}
