// C13 harness: JSON text parser / printer of the real code, one result line per op line.
//   parse <hex text> [e=<errno>]        -> parse ok <wire> | parse ok NULL | parse err <name>
//   print <flags> <wire tokens...>      -> print ok <hex text> re=<ok <wire>|err <name>> | print err <name>
//   unesc <hex text after the quote>    -> unesc rc=<name> len=<n> fill=<n> out=<hex> end=<offset>
//   strtod <hex text>                   -> strtod <16 hex bits> <consumed> <erange 0|1>
//   ftoa <16 hex bits>                  -> ftoa <hex text> len=<out_len>
//   f64 <a> <b> [<a> <b> ...]           -> f64 <a*b> <a+b> <a/b> <a==b> ... (hardware binary64, cross-check of the soft float)
//   i2d <int>                           -> i2d <bits of (double) int>
#include <errno.h>
#include "iwjser.c"   // static _jbl_unescape_json_string (library object iwjser.o is left out at link time)
#include "hx_json.h"
#include "iwxstr.h"
#include "iwconv.h"

#define MAXW (1 << 18)

static const char* ename(iwrc rc) {
  static char buf[40];
  iwrc_strip_errno(&rc);
  switch (rc) {
    case 0: return "0";
    case JBL_ERROR_PARSE_JSON: return "json";
    case JBL_ERROR_PARSE_UNQUOTED_STRING: return "unquoted";
    case JBL_ERROR_PARSE_INVALID_CODEPOINT: return "codepoint";
    case JBL_ERROR_PARSE_INVALID_UTF8: return "utf8";
    case JBL_ERROR_MAX_NESTING_LEVEL_EXCEEDED: return "nesting";
    default: snprintf(buf, sizeof(buf), "rc%" PRIu64, (uint64_t) rc); return buf;
  }
}

static void dump_parse(const char *text) {
  struct iwpool *pool = iwpool_create(1024);
  struct jbl_node *n = 0;
  iwrc rc = jbn_from_json(text, &n, pool);
  if (rc) printf("err %s", ename(rc));
  else { int budget = 2000000; printf("ok "); hxj_dump(stdout, n, &budget); }
  iwpool_destroy(pool);
}

int main(int argc, char **argv) {
  setvbuf(stdout, 0, _IOLBF, 0);
  char *line = malloc(HX_MAXLINE);
  char **w = malloc(sizeof(char*) * MAXW);
  while (fgets(line, HX_MAXLINE, stdin)) {
    int n = hx_words(line, w, MAXW);
    if (!n) { printf("bad-op\n"); continue; }
    if (!strcmp(w[0], "parse") && (n == 2 || n == 3)) {
      size_t l; uint8_t *b = hx_parse(w[1], &l);
      errno = (n == 3 && !strncmp(w[2], "e=", 2)) ? atoi(w[2] + 2) : 0;
      printf("parse "); dump_parse((char*) b); printf("\n");
      free(b);
    } else if (!strcmp(w[0], "print") && n >= 3) {
      struct iwpool *pool = iwpool_create(1024);
      int pos = 2;
      struct jbl_node *nd = hxj_build(w, n, &pos, pool, 0);
      if (!nd || pos != n) { printf("bad-op\n"); iwpool_destroy(pool); continue; }
      struct iwxstr *x = iwxstr_create_empty();
      errno = 0;
      iwrc rc = jbn_as_json(nd, jbl_xstr_json_printer, x, (jbl_print_flags_t) atoi(w[1]));
      if (rc) printf("print err %s\n", ename(rc));
      else {
        printf("print ok "); hx_print(stdout, iwxstr_ptr(x), iwxstr_size(x));
        errno = 0;
        printf(" re="); dump_parse(iwxstr_ptr(x)); printf("\n");
      }
      iwxstr_destroy(x);
      iwpool_destroy(pool);
    } else if (!strcmp(w[0], "unesc") && n == 2) {
      size_t l; uint8_t *b = hx_parse(w[1], &l);
      JCTX ctx = { 0 };
      const char *end = 0;
      int len = _jbl_unescape_json_string(&ctx, '"', (char*) b, 0, 0, &end);
      if (ctx.rc) printf("unesc rc=%s\n", ename(ctx.rc));
      else {
        char *d = malloc(len + 1);   // exactly len + 1 bytes, as the parser allocates: ASan sees any excess store
        const char *end2 = 0;
        int len2 = _jbl_unescape_json_string(&ctx, '"', (char*) b, d, len, &end2);
        printf("unesc rc=%s len=%d fill=%d out=", ename(ctx.rc), len, len2); hx_print(stdout, d, len2 < len ? len2 : len);
        printf(" end=%d\n", (int) (end - (char*) b));
        free(d);
      }
      free(b);
    } else if (!strcmp(w[0], "strtod") && n == 2) {
      size_t l; uint8_t *b = hx_parse(w[1], &l);
      char *pe = 0; errno = 0;
      double d = iwstrtod((char*) b, &pe);
      uint64_t bits; memcpy(&bits, &d, 8);
      printf("strtod %016" PRIx64 " %d %d\n", bits, (int) (pe - (char*) b), errno == ERANGE);
      free(b);
    } else if (!strcmp(w[0], "f64") && n >= 3 && n % 2 == 1) {
      printf("f64");
      for (int i = 1; i + 1 < n; i += 2) {
        uint64_t ab = strtoull(w[i], 0, 16), bb = strtoull(w[i + 1], 0, 16), r;
        volatile double a, b, c;
        memcpy((void*) &a, &ab, 8); memcpy((void*) &b, &bb, 8);
        c = a * b; memcpy(&r, (void*) &c, 8); printf(" %016" PRIx64, r);
        c = a + b; memcpy(&r, (void*) &c, 8); printf(" %016" PRIx64, r);
        c = a / b; memcpy(&r, (void*) &c, 8); printf(" %016" PRIx64, r);
        printf(" %d", a == b);
      }
      printf("\n");
    } else if (!strcmp(w[0], "i2d") && n == 2) {
      volatile int64_t i = strtoll(w[1], 0, 10);
      volatile double c = (double) i; uint64_t r;
      memcpy(&r, (void*) &c, 8); printf("i2d %016" PRIx64 "\n", r);
    } else if (!strcmp(w[0], "ftoa") && n == 2) {
      uint64_t bits = strtoull(w[1], 0, 16); double d; memcpy(&d, &bits, 8);
      char buf[IWNUMBUF_SIZE]; size_t ol = 0;
      iwjson_ftoa(d, buf, &ol);
      printf("ftoa "); hx_print(stdout, buf, strlen(buf)); printf(" len=%zu\n", ol);
    } else printf("bad-op\n");
  }
  fflush(stdout);
  return 0;
}
