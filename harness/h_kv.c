// KV harness (C01, C02, C03, C06, C09): drives the public iwkv API of the real code, one result
// line per op line.  #includes iwkv.c only to read node boundaries from the mapped file (`nodes`)
// and to force skip-list levels; every operation goes through the public entry points.
#include "iwkv.c"
#include "hx.h"
#include <sys/stat.h>

#define MAXDB 64
#define MAXCUR 16

static IWKV kv;
static IWDB dbs[MAXDB];
static size_t metaset[MAXDB];
static IWKV_cursor curs[MAXCUR];
static char basepath[1024];

static const char* rcname(iwrc rc) {
  static char buf[64];
  iwrc_strip_errno(&rc);
  switch (rc) {
    case 0: return "ok";
    case IWKV_ERROR_NOTFOUND: return "notfound";
    case IWKV_ERROR_KEY_EXISTS: return "exists";
    case IWKV_ERROR_MAXKVSZ: return "maxkvsz";
    case IWKV_ERROR_CORRUPTED: return "corrupted";
    case IWKV_ERROR_KEY_NUM_VALUE_SIZE: return "numsize";
    case IWKV_ERROR_INCOMPATIBLE_DB_MODE: return "incompat";
    case IWKV_ERROR_VALUE_CANNOT_BE_INCREMENTED: return "cannotinc";
    case IW_ERROR_INVALID_ARGS: return "invalid_args";
    case IW_ERROR_INVALID_STATE: return "invalid_state";
    case IW_ERROR_READONLY: return "readonly";
    case IW_ERROR_OVERFLOW: return "overflow";
    case IW_ERROR_FAIL: return "fail";
    case IW_ERROR_NOT_EXISTS: return "not_exists";
    default: snprintf(buf, sizeof buf, "rc%" PRIu64, (uint64_t) rc); return buf;
  }
}

static uint32_t fnv(const uint8_t *p, size_t n) { uint32_t h = 2166136261u; for (size_t i = 0; i < n; ++i) { h ^= p[i]; h *= 16777619u; } return h; }
// values: hex when short, otherwise `#len:fnv`
static void pval(const void *p, size_t n) { if (n <= 24) hx_print(stdout, p, n); else printf("#%zu:%08x", n, fnv(p, n)); }

// put handler: phop points at mode (1 accept, 2 reject); records the old value it saw
static struct { int mode; int called; int hadold; uint8_t *old; size_t oldsz; } phs;
static iwrc ph_fn(const struct iwkv_val *key, const struct iwkv_val *val, struct iwkv_val *oldval, void *op) {
  phs.called = 1;
  if (oldval) { phs.hadold = 1; phs.oldsz = oldval->size; phs.old = malloc(oldval->size + 1); if (oldval->size) memcpy(phs.old, oldval->data, oldval->size); iwkv_val_dispose(oldval); }
  return phs.mode == 2 ? IW_ERROR_FAIL : 0;
}
static void ph_report(void) {
  if (!phs.called) printf(" ph=notcalled");
  else if (!phs.hadold) printf(" ph=new");
  else { printf(" ph=old:"); pval(phs.old, phs.oldsz); }
  free(phs.old); memset(&phs, 0, sizeof phs);
}

static int cop_of(const char *s) {
  return !strcmp(s, "bf") ? IWKV_CURSOR_BEFORE_FIRST : !strcmp(s, "al") ? IWKV_CURSOR_AFTER_LAST : !strcmp(s, "next") ? IWKV_CURSOR_NEXT
         : !strcmp(s, "prev") ? IWKV_CURSOR_PREV : !strcmp(s, "eq") ? IWKV_CURSOR_EQ : !strcmp(s, "ge") ? IWKV_CURSOR_GE : atoi(s);
}

static void print_key(IWDB db, const struct iwkv_val *k) { hx_print(stdout, k->data, k->size); printf(":%" PRId64, k->compound); }

static void do_dump(IWDB db) {
  IWKV_cursor c; iwrc rc = iwkv_cursor_open(db, &c, IWKV_CURSOR_BEFORE_FIRST, 0);
  if (rc) { printf("dump %s\n", rcname(rc)); return; }
  printf("dump");
  long budget = 2000000;
  while (!(rc = iwkv_cursor_to(c, IWKV_CURSOR_NEXT)) && budget-- > 0) {
    struct iwkv_val k = { 0 }, v = { 0 };
    rc = iwkv_cursor_get(c, &k, &v);
    if (rc) { printf(" get-%s", rcname(rc)); break; }
    printf(" "); print_key(db, &k); printf("="); pval(v.data, v.size);
    iwkv_kv_dispose(&k, &v);
  }
  if (rc != IWKV_ERROR_NOTFOUND) printf(" end-%s", rcname(rc));
  printf("\n");
  iwkv_cursor_close(&c);
}

// node boundaries: follow n[0] from the database header in the mapped file: "<pnum>/<lvl> ..."
static void do_nodes(IWDB db) {
  uint8_t *mm; if (kv->fsm.acquire_mmap(&kv->fsm, 0, &mm, 0)) { printf("nodes err\n"); return; }
  uint32_t blk; memcpy(&blk, mm + db->addr + DOFF_N0_U4, 4);
  printf("nodes");
  int budget = 1000000;
  while (blk && budget-- > 0) { uint8_t *sb = mm + BLK2ADDR(blk); printf(" %d/%d", (int) (int8_t) sb[SOFF_PNUM_U1], (int) sb[SOFF_LVL_U1]); memcpy(&blk, sb + SOFF_N0_U4, 4); }
  printf("\n");
  kv->fsm.release_mmap(&kv->fsm);
}

// node placement: "<page block>:<slot on the page>:<pnum>" per node of the level-0 chain
static void do_nodes2(IWDB db) {
  uint8_t *mm; if (kv->fsm.acquire_mmap(&kv->fsm, 0, &mm, 0)) { printf("nodes2 err\n"); return; }
  uint32_t blk; memcpy(&blk, mm + db->addr + DOFF_N0_U4, 4);
  printf("nodes2");
  int budget = 1000000;
  while (blk && budget-- > 0) {
    uint8_t *sb = mm + BLK2ADDR(blk); int bpos = sb[SOFF_BPOS_U1_V2];
    printf(" %lld:%d:%d", (long long) (BLK2ADDR(blk) - (bpos ? bpos - 1 : 0) * (long long) SBLK_SZ), bpos, (int) (int8_t) sb[SOFF_PNUM_U1]);
    memcpy(&blk, sb + SOFF_N0_U4, 4);
  }
  printf("\n");
  kv->fsm.release_mmap(&kv->fsm);
}

// data block of the first node: "blk <szpow> <idxsz> <maxoff> <free> <sum of record lengths>" (free = bytes between index and records)
static void do_blk(IWDB db) {
  uint8_t *mm; if (kv->fsm.acquire_mmap(&kv->fsm, 0, &mm, 0)) { printf("blk err\n"); return; }
  uint32_t blk; memcpy(&blk, mm + db->addr + DOFF_N0_U4, 4);
  if (!blk) { printf("blk none\n"); kv->fsm.release_mmap(&kv->fsm); return; }
  uint32_t kb; memcpy(&kb, mm + BLK2ADDR(blk) + SOFF_KBLK_U4, 4);
  // parsed from the bytes: [szpow:u1, idxsz:u2, 32 x (off:vn, len:vn)]; no static function of iwkv.c is named here
  const uint8_t *rp = mm + BLK2ADDR(kb);
  int szpow = rp[0]; unsigned idxsz = rp[1] | (rp[2] << 8);
  long long maxoff = 0, sum = 0; rp += 3;
  for (int i = 0; i < KVBLK_IDXNUM; ++i) {
    int step; long long off; unsigned len;
    IW_READVNUMBUF64(rp, off, step); rp += step;
    IW_READVNUMBUF(rp, len, step); rp += step;
    if (len) { if (off > maxoff) maxoff = off; sum += len; }
  }
  printf("blk %d %u %lld %lld %lld\n", szpow, idxsz, maxoff, (1LL << szpow) - KVBLK_HDRSZ - idxsz - maxoff, sum);
  kv->fsm.release_mmap(&kv->fsm);
}

int main(int argc, char **argv) {
  setvbuf(stdout, 0, _IOLBF, 0);
  snprintf(basepath, sizeof basepath, "%s", argv[1]);
  char *line = malloc(HX_MAXLINE), *w[24];
  while (fgets(line, HX_MAXLINE, stdin)) {
    int n = hx_words(line, w, 24);
    if (!n) { printf("bad-op\n"); continue; }
    const char *op = w[0];
    if (!strcmp(op, "open") && n >= 4) {         // open <wal> <trunc> <ro> [notrim] [seed]
      IWKV_OPTS o = { .path = basepath, .random_seed = 7 };
      if (atoi(w[2])) o.oflags |= IWKV_TRUNC;
      if (atoi(w[3])) o.oflags |= IWKV_RDONLY;
      if (n > 4 && atoi(w[4])) o.oflags |= IWKV_NO_TRIM_ON_CLOSE;
      o.wal.enabled = atoi(w[1]) != 0;
      o.wal.savepoint_timeout_sec = 100000; o.wal.checkpoint_timeout_sec = 200000;
      memset(dbs, 0, sizeof dbs); memset(curs, 0, sizeof curs);
      iwrc rc = iwkv_open(&o, &kv);
      if (rc) kv = 0;
      printf("open %s\n", rcname(rc));
    } else if (!strcmp(op, "image") && n == 2) {   // image <path>: copy of the database file (non-WAL: mapping is MAP_SHARED, the page cache is coherent)
      FILE *in = fopen(basepath, "rb"), *out = fopen(w[1], "wb");
      long tot = 0;
      if (in && out) { char buf[65536]; size_t r; while ((r = fread(buf, 1, sizeof buf, in)) > 0) { fwrite(buf, 1, r, out); tot += r; } }
      if (in) fclose(in);
      if (out) fclose(out);
      printf("image %ld\n", tot);
    } else if (!strcmp(op, "fhash")) {             // size and hash of the database file as it is on disk
      FILE *in = fopen(basepath, "rb"); long tot = 0; uint32_t hh = 2166136261u;
      if (in) { uint8_t buf[65536]; size_t r; while ((r = fread(buf, 1, sizeof buf, in)) > 0) { for (size_t i = 0; i < r; ++i) { hh ^= buf[i]; hh *= 16777619u; } tot += r; } fclose(in); }
      printf("fhash %ld %08x\n", in ? tot : -1L, hh);
    } else if (!strcmp(op, "fsize")) {
      struct stat st; printf("fsize %ld\n", stat(basepath, &st) ? -1L : (long) st.st_size);
    } else if (!strcmp(op, "close")) {
      for (int i = 0; i < MAXCUR; ++i) if (curs[i]) iwkv_cursor_close(&curs[i]);
      iwrc rc = kv ? iwkv_close(&kv) : IW_ERROR_INVALID_STATE;
      kv = 0;
      printf("close %s\n", rcname(rc));
    } else if (!kv) {
      printf("%s closed\n", op);
    } else if (!strcmp(op, "db") && n == 3) {      // db <id> <flags>
      int id = atoi(w[1]); IWDB d = 0;
      iwrc rc = iwkv_db(kv, id, (iwdb_flags_t) atoi(w[2]), &d);
      if (!rc) dbs[id] = d;
      printf("db %s\n", rcname(rc));
    } else if (!strcmp(op, "dbdestroy") && n == 2) {
      int id = atoi(w[1]);
      for (int i = 0; i < MAXCUR; ++i) if (curs[i] && curs[i]->lx.db == dbs[id]) iwkv_cursor_close(&curs[i]);
      iwrc rc = dbs[id] ? iwkv_db_destroy(&dbs[id]) : IW_ERROR_INVALID_ARGS;
      dbs[id] = 0; metaset[id] = 0;
      printf("dbdestroy %s\n", rcname(rc));
    } else if (!strcmp(op, "sync")) {
      printf("sync %s\n", rcname(iwkv_sync(kv, 0)));
    } else if (!strcmp(op, "put") && n >= 7) {    // put <db> <key> <comp> <val> <opflags> <lvl> [ph]
      IWDB db = dbs[atoi(w[1])];
      size_t kl, vl; uint8_t *k = hx_parse(w[2], &kl), *v = hx_parse(w[4], &vl);
      struct iwkv_val key = { .data = k, .size = kl, .compound = strtoll(w[3], 0, 10) }, val = { .data = v, .size = vl };
      int lvl = atoi(w[6]);
      if (db) while (lvl > 0 && db->lcnt[lvl - 1] == 0) --lvl;   // same clamping as _sblk_genlevel applies to drawn levels
      iwkv_next_level = (int8_t) lvl;
      int ph = n > 7 ? atoi(w[7]) : 0;
      memset(&phs, 0, sizeof phs); phs.mode = ph;
      iwrc rc = db ? iwkv_puth(db, &key, &val, (iwkv_opflags) atoi(w[5]), ph ? ph_fn : 0, 0) : IW_ERROR_INVALID_ARGS;
      iwkv_next_level = -1;
      printf("put %s", rcname(rc)); if (ph) ph_report(); printf("\n");
      free(k); free(v);
    } else if (!strcmp(op, "putbig") && n == 5) { // putbig <db> <key> <comp> <size>: value of <size> zero bytes (too long for a hex line)
      IWDB db = dbs[atoi(w[1])];
      size_t kl, vl = strtoull(w[4], 0, 10); uint8_t *k = hx_parse(w[2], &kl);
      uint8_t *v = vl <= ((size_t) 1 << 30) ? calloc(vl ? vl : 1, 1) : 0;
      struct iwkv_val key = { .data = k, .size = kl, .compound = strtoll(w[3], 0, 10) }, val = { .data = v, .size = vl };
      iwrc rc = db && v ? iwkv_put(db, &key, &val, 0) : IW_ERROR_INVALID_ARGS;
      printf("put %s\n", rcname(rc));
      free(k); free(v);
    } else if (!strcmp(op, "get") && n == 4) {
      IWDB db = dbs[atoi(w[1])];
      size_t kl; uint8_t *k = hx_parse(w[2], &kl);
      struct iwkv_val key = { .data = k, .size = kl, .compound = strtoll(w[3], 0, 10) }, val = { 0 };
      iwrc rc = db ? iwkv_get(db, &key, &val) : IW_ERROR_INVALID_ARGS;
      printf("get %s ", rcname(rc)); if (!rc) { pval(val.data, val.size); iwkv_val_dispose(&val); } else printf("-"); printf("\n");
      free(k);
    } else if (!strcmp(op, "getc") && n == 5) {   // getc <db> <key> <comp> <bufsz>
      IWDB db = dbs[atoi(w[1])];
      size_t kl; uint8_t *k = hx_parse(w[2], &kl); size_t bs = strtoul(w[4], 0, 10), vsz = 0;
      struct iwkv_val key = { .data = k, .size = kl, .compound = strtoll(w[3], 0, 10) };
      uint8_t *buf = malloc(bs + 1); memset(buf, 0xEE, bs + 1);
      iwrc rc = db ? iwkv_get_copy(db, &key, buf, bs, &vsz) : IW_ERROR_INVALID_ARGS;
      printf("getc %s %zu ", rcname(rc), vsz); if (!rc) pval(buf, vsz < bs ? vsz : bs); else printf("-");
      printf(buf[bs] == 0xEE ? "\n" : " OVERRUN\n");
      free(buf); free(k);
    } else if (!strcmp(op, "del") && n == 4) {
      IWDB db = dbs[atoi(w[1])];
      size_t kl; uint8_t *k = hx_parse(w[2], &kl);
      struct iwkv_val key = { .data = k, .size = kl, .compound = strtoll(w[3], 0, 10) };
      printf("del %s\n", rcname(db ? iwkv_del(db, &key, 0) : IW_ERROR_INVALID_ARGS));
      free(k);
    } else if (!strcmp(op, "mset") && n == 3) {
      int id = atoi(w[1]); size_t l; uint8_t *b = hx_parse(w[2], &l);
      iwrc rc = dbs[id] ? iwkv_db_set_meta(dbs[id], b, l) : IW_ERROR_INVALID_ARGS;
      if (!rc && l) metaset[id] = l;
      printf("mset %s\n", rcname(rc)); free(b);
    } else if (!strcmp(op, "mget") && n == 4) {   // mget <db> <bufsz> <known-set-size>: prints the first min(rsz, known) bytes
      int id = atoi(w[1]); size_t bs = strtoul(w[2], 0, 10), known = strtoul(w[3], 0, 10), rsz = 0;
      uint8_t *buf = malloc(bs + 1);
      iwrc rc = dbs[id] ? iwkv_db_get_meta(dbs[id], buf, bs, &rsz) : IW_ERROR_INVALID_ARGS;
      printf("mget %s %d ", rcname(rc), rsz >= (known < bs ? known : bs)); if (!rc) pval(buf, rsz < known ? rsz : known); else printf("-"); printf("\n");
      free(buf);
    } else if (!strcmp(op, "dump") && n == 2) {
      if (dbs[atoi(w[1])]) do_dump(dbs[atoi(w[1])]); else printf("dump nodb\n");
    } else if (!strcmp(op, "nodes") && n == 2) {
      if (dbs[atoi(w[1])]) do_nodes(dbs[atoi(w[1])]); else printf("nodes nodb\n");
    } else if (!strcmp(op, "blk") && n == 2) {
      if (dbs[atoi(w[1])]) do_blk(dbs[atoi(w[1])]); else printf("blk nodb\n");
    } else if (!strcmp(op, "nodes2") && n == 2) {
      if (dbs[atoi(w[1])]) do_nodes2(dbs[atoi(w[1])]); else printf("nodes2 nodb\n");
    } else if (!strcmp(op, "cur") && n >= 3) {    // cur <c> <sub> ...
      int ci = atoi(w[1]); const char *sub = w[2];
      IWKV_cursor c = curs[ci];
      if (!strcmp(sub, "open") && n >= 5) {       // cur c open <db> <op> [key comp]
        IWDB db = dbs[atoi(w[3])];
        if (c) iwkv_cursor_close(&curs[ci]);
        size_t kl = 0; uint8_t *k = n >= 7 ? hx_parse(w[5], &kl) : 0;
        struct iwkv_val key = { .data = k, .size = kl, .compound = n >= 7 ? strtoll(w[6], 0, 10) : 0 };
        iwrc rc = db ? iwkv_cursor_open(db, &curs[ci], cop_of(w[4]), k ? &key : 0) : IW_ERROR_INVALID_ARGS;
        if (rc) curs[ci] = 0;
        printf("cur %s\n", rcname(rc)); free(k);
      } else if (!c) {
        printf("cur nocursor\n");
      } else if (!strcmp(sub, "close")) {
        printf("cur %s\n", rcname(iwkv_cursor_close(&curs[ci])));
      } else if (!strcmp(sub, "to") && n == 4) {
        printf("cur %s\n", rcname(iwkv_cursor_to(c, cop_of(w[3]))));
      } else if (!strcmp(sub, "tokey") && n == 6) {
        size_t kl; uint8_t *k = hx_parse(w[4], &kl);
        struct iwkv_val key = { .data = k, .size = kl, .compound = strtoll(w[5], 0, 10) };
        printf("cur %s\n", rcname(iwkv_cursor_to_key(c, cop_of(w[3]), &key))); free(k);
      } else if (!strcmp(sub, "get")) {
        struct iwkv_val k = { 0 }, v = { 0 }; iwrc rc = iwkv_cursor_get(c, &k, &v);
        printf("cur %s ", rcname(rc)); if (!rc) { print_key(c->lx.db, &k); printf("="); pval(v.data, v.size); iwkv_kv_dispose(&k, &v); } else printf("-"); printf("\n");
      } else if (!strcmp(sub, "key")) {
        struct iwkv_val k = { 0 }; iwrc rc = iwkv_cursor_key(c, &k);
        printf("cur %s ", rcname(rc)); if (!rc) { print_key(c->lx.db, &k); iwkv_val_dispose(&k); } else printf("-"); printf("\n");
      } else if (!strcmp(sub, "val")) {
        struct iwkv_val v = { 0 }; iwrc rc = iwkv_cursor_val(c, &v);
        printf("cur %s ", rcname(rc)); if (!rc) { pval(v.data, v.size); iwkv_val_dispose(&v); } else printf("-"); printf("\n");
      } else if (!strcmp(sub, "cval") && n == 4) {
        size_t bs = strtoul(w[3], 0, 10), vsz = 0; uint8_t *buf = malloc(bs + 1); memset(buf, 0xEE, bs + 1);
        iwrc rc = iwkv_cursor_copy_val(c, buf, bs, &vsz);
        printf("cur %s %zu ", rcname(rc), vsz); if (!rc) pval(buf, vsz < bs ? vsz : bs); else printf("-"); printf(buf[bs] == 0xEE ? "\n" : " OVERRUN\n"); free(buf);
      } else if (!strcmp(sub, "ckey") && n == 4) {
        size_t bs = strtoul(w[3], 0, 10), ksz = 0; int64_t comp = 0; uint8_t *buf = malloc(bs + 1); memset(buf, 0xEE, bs + 1);
        iwrc rc = iwkv_cursor_copy_key(c, buf, bs, &ksz, &comp);
        printf("cur %s %zu:%" PRId64 " ", rcname(rc), ksz, comp); if (!rc) hx_print(stdout, buf, ksz < bs ? ksz : bs); else printf("-"); printf(buf[bs] == 0xEE ? "\n" : " OVERRUN\n"); free(buf);
      } else if (!strcmp(sub, "match") && n == 4) {
        size_t kl; uint8_t *k = hx_parse(w[3], &kl); struct iwkv_val key = { .data = k, .size = kl };
        bool res = false; int64_t comp = 0; iwrc rc = iwkv_cursor_is_matched_key(c, &key, &res, &comp);
        printf("cur %s %d:%" PRId64 "\n", rcname(rc), (int) res, rc ? 0 : comp); free(k);
      } else if (!strcmp(sub, "set") && n >= 5) {  // cur c set <val> <opflags> [ph]
        size_t vl; uint8_t *v = hx_parse(w[3], &vl); struct iwkv_val val = { .data = v, .size = vl };
        int ph = n > 5 ? atoi(w[5]) : 0; memset(&phs, 0, sizeof phs); phs.mode = ph;
        iwrc rc = iwkv_cursor_seth(c, &val, (iwkv_opflags) atoi(w[4]), ph ? ph_fn : 0, 0);
        printf("cur %s", rcname(rc)); if (ph) ph_report(); printf("\n"); free(v);
      } else if (!strcmp(sub, "del")) {
        printf("cur %s\n", rcname(iwkv_cursor_del(c, 0)));
      } else printf("bad-op\n");
    } else printf("bad-op\n");
  }
  if (kv) { for (int i = 0; i < MAXCUR; ++i) if (curs[i]) iwkv_cursor_close(&curs[i]); iwkv_close(&kv); }
  return 0;
}
