// C07/C08 harness: threads run short programs over one open store of the real code.
//  * every pthread lock call made by the library is recorded (link-time --wrap) per thread and per API call;
//  * every API call is logged with logical invoke/response timestamps and its result;
//  * a watchdog turns a call that never returns into a `hang` line;
//  * iwkv_online_backup is stretched / gated at its stage boundaries (wrapped iwp_pread / open);
//  * two modes: `free` (threads run concurrently) and `sched` (one op at a time, chosen by the input).
// Input: one case = header line `case ...`, lines `<tid> <op ...>`, then `run` (free) or ops executed
// immediately (sched), closed by `end`.  See checks/c07.py / checks/c08.py for the grammar.
#include "iwkv.c"   // white-box: struct iwkv / iwdb / cursor internals (library object iwkv.o left out)
#include "hx.h"
#include <semaphore.h>
#include <sched.h>
#include <stdarg.h>
#include <time.h>
#include <sys/stat.h>
#include <signal.h>

void *hxs_fsm_lock(IWFS_FSM *f);
IWFS_EXT *hxs_fsm_pool(IWFS_FSM *f);
void *hxs_exf_lock(IWFS_EXT *f);
long long hxs_exf_fsize(IWFS_EXT *f);
long long hxs_exf_maplen(IWFS_EXT *f);
void *hxs_wal_mtx(struct iwkv *kv);
int hxs_wal_stage(struct iwkv *kv);
void hxs_wal_set_stage(struct iwkv *kv, int st);
void hxs_wal_obs(struct iwkv *kv, char *out, size_t outsz);
int hxs_wal_forcecp(struct iwkv *kv);
int hxs_exf_fd(IWFS_EXT *f);

int __real_pthread_rwlock_rdlock(pthread_rwlock_t*);
int __real_pthread_rwlock_wrlock(pthread_rwlock_t*);
int __real_pthread_rwlock_unlock(pthread_rwlock_t*);
int __real_pthread_mutex_lock(pthread_mutex_t*);
int __real_pthread_mutex_unlock(pthread_mutex_t*);
int __real_pthread_cond_wait(pthread_cond_t*, pthread_mutex_t*);
int __real_pthread_cond_timedwait(pthread_cond_t*, pthread_mutex_t*, const struct timespec*);
int __real_pthread_spin_lock(pthread_spinlock_t*);
int __real_pthread_spin_unlock(pthread_spinlock_t*);
iwrc __real_iwp_pread(HANDLE fh, off_t off, void *buf, size_t siz, size_t *sp);
int __real_open64(const char *path, int flags, ...);
int __real_open(const char *path, int flags, ...);

// ---------------------------------------------------------------- string builder
typedef struct { char *s; size_t len, cap; } SB;
static void sb_putn(SB *b, const char *p, size_t n) {
  if (b->len + n + 1 > b->cap) { b->cap = (b->len + n + 1) * 2 + 64; b->s = realloc(b->s, b->cap); }
  memcpy(b->s + b->len, p, n); b->len += n; b->s[b->len] = 0;
}
static void sb_puts(SB *b, const char *p) { sb_putn(b, p, strlen(p)); }
static void sb_printf(SB *b, const char *fmt, ...) {
  char tmp[512]; va_list ap; va_start(ap, fmt); int n = vsnprintf(tmp, sizeof tmp, fmt, ap); va_end(ap);
  if (n > 0) sb_putn(b, tmp, (size_t) n < sizeof tmp ? (size_t) n : sizeof tmp - 1);
}
static char *sb_take(SB *b) { char *s = b->s ? b->s : strdup(""); b->s = 0; b->len = b->cap = 0; return s; }

// ---------------------------------------------------------------- lock names
#define MAXLK 256
static struct { void *addr; char name[12]; } g_lk[MAXLK];
static atomic_int g_nlk;
static void reg_lock(void *addr, const char *name) {
  if (!addr) return;
  int n = atomic_load(&g_nlk);
  if (n >= MAXLK) return;
  g_lk[n].addr = addr; snprintf(g_lk[n].name, sizeof g_lk[n].name, "%s", name);
  atomic_store(&g_nlk, n + 1);   // single registrar at a time (guarded by g_reg_spin below)
}
static atomic_flag g_reg_spin = ATOMIC_FLAG_INIT;
static void reg_lock_mt(void *addr, const char *name) {
  while (atomic_flag_test_and_set(&g_reg_spin)) sched_yield();
  reg_lock(addr, name);
  atomic_flag_clear(&g_reg_spin);
}
static const char *lk_name(void *addr) {
  for (int i = atomic_load(&g_nlk) - 1; i >= 0; --i) if (g_lk[i].addr == addr) return g_lk[i].name;
  return "?";
}

// ---------------------------------------------------------------- per-thread recorder
typedef struct {
  int tid;
  unsigned rs;               // yield PRNG
  SB ev;                     // events of the current op (worker) or of the whole life (background thread)
  const char *volatile waiting;
  volatile int opidx;
  int nev;
  int holds_wk;              // this thread holds the store's worker-count mutex (iwkv->wk_mtx)
} Rec;
static IWKV g_kv;            // (tentative definition: the store under test, defined below)
static atomic_int g_excl_bad, g_excl_bad_n;   // exclusive store lock taken by _wnw() while workers were still registered
static __thread Rec *t_rec;
static Rec g_bg[8];
static atomic_int g_nbg;
static Rec g_main_rec;
static int g_yield;          // permille of lock events preceded by a yield / short sleep
static atomic_int g_recording;

static Rec *cur_rec(void) {
  if (t_rec) return t_rec;
  int n = atomic_fetch_add(&g_nbg, 1);
  if (n >= 8) n = 7;
  g_bg[n].tid = 100 + n; g_bg[n].rs = 12345 + n; g_bg[n].opidx = -1;
  t_rec = &g_bg[n];
  return t_rec;
}
static void maybe_yield(Rec *r) {
  if (!g_yield) return;
  r->rs = r->rs * 1103515245u + 12345u;
  unsigned x = (r->rs >> 8) % 1000;
  if (x < (unsigned) g_yield) { if ((r->rs >> 20) & 1) sched_yield(); else usleep((r->rs >> 21) % 150); }
}
static void ev(Rec *r, char op, void *addr) {
  if (!g_recording || r == &g_main_rec) return;
  if (r->nev > 200000) return;
  char tok[32]; int n;
  if (r->tid >= 100) n = snprintf(tok, sizeof tok, "%c@%p ", op, addr);   // background thread: named when printed
  else {
    const char *nm = lk_name(addr);
    if (nm[0] == '?' && (op == 's' || op == 'x')) nm = "N";              // the only unregistered spin lock: mt19937 generator
    n = snprintf(tok, sizeof tok, "%c%s ", op, nm);
  }
  sb_putn(&r->ev, tok, n); r->nev++;
}

int __wrap_pthread_rwlock_rdlock(pthread_rwlock_t *l) {
  Rec *r = cur_rec(); maybe_yield(r); r->waiting = lk_name(l);
  int rc = __real_pthread_rwlock_rdlock(l); r->waiting = 0; ev(r, rc ? 'E' : 'r', l); return rc;
}
int __wrap_pthread_rwlock_wrlock(pthread_rwlock_t *l) {
  Rec *r = cur_rec(); maybe_yield(r); r->waiting = lk_name(l);
  int rc = __real_pthread_rwlock_wrlock(l); r->waiting = 0; ev(r, rc ? 'E' : 'w', l);
  // exclusive access to the store is taken with the worker-count mutex held and must find no worker registered (open cursors count)
  if (!rc && g_kv && l == &g_kv->rwl && r->holds_wk && g_kv->wk_count > 0) { atomic_fetch_add(&g_excl_bad, 1); atomic_store(&g_excl_bad_n, (int) g_kv->wk_count); }
  return rc;
}
int __wrap_pthread_rwlock_unlock(pthread_rwlock_t *l) {
  Rec *r = cur_rec(); ev(r, 'u', l);
  int rc = __real_pthread_rwlock_unlock(l); maybe_yield(r); return rc;
}
int __wrap_pthread_mutex_lock(pthread_mutex_t *l) {
  Rec *r = cur_rec(); maybe_yield(r); r->waiting = lk_name(l);
  int rc = __real_pthread_mutex_lock(l); r->waiting = 0; ev(r, rc ? 'E' : 'l', l);
  if (!rc && g_kv && l == &g_kv->wk_mtx) r->holds_wk = 1;
  return rc;
}
int __wrap_pthread_mutex_unlock(pthread_mutex_t *l) {
  Rec *r = cur_rec(); ev(r, 'v', l);
  if (g_kv && l == &g_kv->wk_mtx) r->holds_wk = 0;
  int rc = __real_pthread_mutex_unlock(l); maybe_yield(r); return rc;
}
int __wrap_pthread_cond_wait(pthread_cond_t *c, pthread_mutex_t *l) {
  Rec *r = cur_rec(); r->waiting = "cond"; ev(r, 'c', l);
  int rc = __real_pthread_cond_wait(c, l); r->waiting = 0; return rc;
}
int __wrap_pthread_cond_timedwait(pthread_cond_t *c, pthread_mutex_t *l, const struct timespec *ts) {
  Rec *r = cur_rec(); ev(r, 't', l);
  return __real_pthread_cond_timedwait(c, l, ts);
}
int __wrap_pthread_spin_lock(pthread_spinlock_t *l) {
  Rec *r = cur_rec(); maybe_yield(r);
  int rc = __real_pthread_spin_lock(l); ev(r, rc ? 'E' : 's', (void*) l); return rc;
}
int __wrap_pthread_spin_unlock(pthread_spinlock_t *l) {
  Rec *r = cur_rec(); ev(r, 'x', (void*) l);
  return __real_pthread_spin_unlock(l);
}

// ---------------------------------------------------------------- store, programs
#define MAXT 9      // worker threads 0..7, 8 = setup ops executed by the main thread
#define MAXOPS 4000
#define NCUR 4
#define NPRIV 4
typedef struct { char *text; unsigned long inv, res; char *out; char *ev; int done; } Op;
typedef struct {
  int tid; pthread_t th; int started;
  Op *ops; int nops;
  Rec rec;
  IWKV_cursor cur[NCUR];
  IWDB priv[NPRIV];
  sem_t cmd, done;          // sched mode hand-shake
  volatile int cmd_idx;
  volatile int at_gate;      // stage number the backup thread is parked at (sched mode)
  sem_t gate_go;
  volatile int in_bkp, last_stage, bkp_no;
} Thr;

static IWKV g_kv;
static char g_path[512];
static int g_wal, g_sched, g_nth;
static Thr g_thr[MAXT];
static atomic_ulong g_clock;
static __thread Thr *t_thr;
static char *g_snap[8]; static atomic_int g_nsnap;   // dumps taken inside backup stage 5
static int g_bkp_delay_us = 2000;
static sem_t g_evt;        // sched mode: "the dispatched thread finished its op or reached a gate"

static const char *rcname(iwrc rc, char *buf) {
  iwrc_strip_errno(&rc);
  if (!rc) return "ok";
  if (rc == IWKV_ERROR_NOTFOUND) return "nf";
  if (rc == IWKV_ERROR_KEY_EXISTS) return "ke";
  if (rc == IWKV_ERROR_INCOMPATIBLE_DB_MODE) return "mode";
  if (rc == IWKV_ERROR_BACKUP_IN_PROGRESS) return "busy";
  if (rc == IW_ERROR_INVALID_STATE) return "state";
  snprintf(buf, 24, "e%" PRIu64, (uint64_t) rc); return buf;
}

// value = tag + '.' padding up to len
static void mkval(char *buf, size_t len, int tid, int idx, size_t *outlen) {
  int n = snprintf(buf, 32, "t%d_%d", tid, idx);
  if (len > (1 << 19)) len = 1 << 19;
  if (len < (size_t) n) len = n;
  memset(buf + n, '.', len - n);
  *outlen = len;
}
static void fmtval(SB *b, const void *data, size_t size) {
  const char *p = data; size_t i = 0;
  if (!size || p[0] != 't') { sb_puts(b, "RAW"); for (i = 0; i < size && i < 12; ++i) sb_printf(b, "%02x", (uint8_t) p[i]); sb_printf(b, "/%zu", size); return; }
  while (i < size && p[i] != '.') i++;
  size_t tl = i;
  for (; i < size; ++i) if (p[i] != '.') { sb_puts(b, "CORRUPT"); break; }
  sb_putn(b, p, tl < 24 ? tl : 24); sb_printf(b, "/%zu", size);
}

static void register_db(IWDB db) {
  char nm[12];
  snprintf(nm, sizeof nm, "D%u", db->id); reg_lock_mt(&db->rwl, nm);
  snprintf(nm, sizeof nm, "P%u", db->id); reg_lock_mt((void*) &db->cursors_slk, nm);
}

// dump through the public API (caller: quiescent store) --- "id{k=v;k=v}"
static void dump_db_api(IWDB db, SB *b) {
  sb_printf(b, "%u{", db->id);
  IWKV_cursor c; int budget = 5000;
  iwrc rc = iwkv_cursor_open(db, &c, IWKV_CURSOR_BEFORE_FIRST, 0);
  if (rc) { sb_printf(b, "open-rc=%" PRIu64 "}", (uint64_t) rc); return; }
  while (!(rc = iwkv_cursor_to(c, IWKV_CURSOR_NEXT)) && budget-- > 0) {
    IWKV_val k = { 0 }, v = { 0 };
    rc = iwkv_cursor_get(c, &k, &v);
    if (rc) { sb_printf(b, "get-rc=%" PRIu64 ";", (uint64_t) rc); break; }
    sb_putn(b, k.data, k.size); sb_puts(b, "="); fmtval(b, v.data, v.size); sb_puts(b, ";");
    iwkv_kv_dispose(&k, &v);
  }
  iwkv_cursor_close(&c);
  sb_puts(b, "}");
}
static char *dump_store_api(IWKV kv) {
  SB b = { 0 };
  for (IWDB db = kv->first_db; db; db = db->next) dump_db_api(db, &b);
  if (!b.s) sb_puts(&b, "-");
  return sb_take(&b);
}
// dump with the internal read functions, taking no store/database lock (caller holds the exclusive lock)
static void dump_db_nolock(IWDB db, SB *b) {
  sb_printf(b, "%u{", db->id);
  IWFS_FSM *fsm = &db->iwkv->fsm;
  struct iwkv_cursor *cur = calloc(1, sizeof(*cur));
  cur->lx.db = db; cur->lx.nlvl = -1;
  int budget = 5000;
  iwrc rc = _cursor_to_lr(cur, IWKV_CURSOR_BEFORE_FIRST);
  while (!rc && !(rc = _cursor_to_lr(cur, IWKV_CURSOR_NEXT)) && budget-- > 0) {
    uint8_t *mm = 0; IWKV_val k = { 0 }, v = { 0 };
    rc = fsm->acquire_mmap(fsm, 0, &mm, 0);
    if (rc) break;
    if (!cur->cn->kvblk) rc = _sblk_loadkvblk_mm(&cur->lx, cur->cn, mm);
    if (!rc) rc = _kvblk_kv_get(cur->cn->kvblk, mm, cur->cn->pi[cur->cnpos], &k, &v);
    fsm->release_mmap(fsm);
    if (rc) { sb_printf(b, "get-rc=%" PRIu64 ";", (uint64_t) rc); break; }
    sb_putn(b, k.data, k.size); sb_puts(b, "="); fmtval(b, v.data, v.size); sb_puts(b, ";");
    iwkv_kv_dispose(&k, &v);
  }
  free(cur);
  sb_puts(b, "}");
}
// Lock-free views of the mapping, swapped into the store's function table while the caller holds the
// exclusive lock (nobody else can be inside the store): the snapshot then takes no lock at all, so it adds
// no edge to the lock-order graph that the recorder and TSan watch.
static iwrc unsafe_acquire_mmap(struct IWFS_FSM *f, off_t off, uint8_t **mm, size_t *sp) {
  IWFS_EXT *pool = hxs_fsm_pool(f); size_t s2;
  return pool->probe_mmap_unsafe(pool, off, mm, sp ? sp : &s2);
}
static iwrc unsafe_release_mmap(struct IWFS_FSM *f) { (void) f; return 0; }
static char *dump_store_nolock(IWKV kv) {
  SB b = { 0 };
  iwrc (*a0)(struct IWFS_FSM*, off_t, uint8_t**, size_t*) = kv->fsm.acquire_mmap;
  iwrc (*r0)(struct IWFS_FSM*) = kv->fsm.release_mmap;
  kv->fsm.acquire_mmap = unsafe_acquire_mmap; kv->fsm.release_mmap = unsafe_release_mmap;
  for (IWDB db = kv->first_db; db; db = db->next) dump_db_nolock(db, &b);
  kv->fsm.acquire_mmap = a0; kv->fsm.release_mmap = r0;
  if (!b.s) sb_puts(&b, "-");
  return sb_take(&b);
}

// ---------------------------------------------------------------- backup stage hooks
static void stage_point(int stage) {
  Thr *t = t_thr;
  if (!t || !t->in_bkp || stage == t->last_stage) return;
  t->last_stage = stage;
  if (stage == 5) {   // exclusive lock held by this thread: the instant the image is meant to capture
    int n = t->bkp_no;
    atomic_fetch_add(&g_nsnap, 1);
    if (n >= 0 && n < 8 && !g_snap[n]) g_snap[n] = dump_store_nolock(g_kv);
  }
  if (g_sched) {
    t->at_gate = stage;
    sem_post(&g_evt);
    sem_wait(&t->gate_go);
    t->at_gate = 0;
  } else if (g_bkp_delay_us) {
    t->rec.rs = t->rec.rs * 1103515245u + 12345u;
    usleep((t->rec.rs >> 10) % (unsigned) g_bkp_delay_us);
  }
}
iwrc __wrap_iwp_pread(HANDLE fh, off_t off, void *buf, size_t siz, size_t *sp) {
  if (t_thr && t_thr->in_bkp && g_kv) stage_point(hxs_wal_stage(g_kv));
  return __real_iwp_pread(fh, off, buf, siz, sp);
}
int __wrap_open64(const char *path, int flags, ...) {
  va_list ap; va_start(ap, flags); int mode = va_arg(ap, int); va_end(ap);
  if (t_thr && t_thr->in_bkp && g_kv) stage_point(hxs_wal_stage(g_kv));
  return __real_open64(path, flags, mode);
}
int __wrap_open(const char *path, int flags, ...) {
  va_list ap; va_start(ap, flags); int mode = va_arg(ap, int); va_end(ap);
  if (t_thr && t_thr->in_bkp && g_kv) stage_point(hxs_wal_stage(g_kv));
  return __real_open(path, flags, mode);
}

// iwal.c passes the address of a field of a packed struct (WBSAVEPOINT.ts, offset 4) to iwp_current_time_ms,
// which stores 8 bytes through it: a misaligned store that UBSan aborts on. It has nothing to do with the
// properties checked here, so the harness routes the call through an alignment-safe shim.
iwrc __real_iwp_current_time_ms(uint64_t *time, bool monotonic);
iwrc __wrap_iwp_current_time_ms(uint64_t *time, bool monotonic) {
  uint64_t v = 0;
  iwrc rc = __real_iwp_current_time_ms(&v, monotonic);
  memcpy(time, &v, sizeof v);
  return rc;
}

// main_stable on the real code: nothing may write to the main file while the backup copies it (stage 3)
ssize_t __real_pwrite64(int fd, const void *buf, size_t n, off_t off);
ssize_t __real_write(int fd, const void *buf, size_t n);
int __real_ftruncate64(int fd, off_t len);
int __real_msync(void *addr, size_t len, int flags);
static atomic_int g_mainwrites;
static void main_touch(const char *fn, int fd) {
  if (!g_kv || !g_kv->dlsnr || hxs_wal_stage(g_kv) != 3) return;
  if (fd >= 0 && fd != hxs_exf_fd(hxs_fsm_pool(&g_kv->fsm))) return;
  if (atomic_fetch_add(&g_mainwrites, 1) < 3) printf("mainwrite %s stage=3\n", fn);
}
ssize_t __wrap_pwrite64(int fd, const void *buf, size_t n, off_t off) { main_touch("pwrite", fd); return __real_pwrite64(fd, buf, n, off); }
ssize_t __wrap_write(int fd, const void *buf, size_t n) { if (fd > 2) main_touch("write", fd); return __real_write(fd, buf, n); }
int __wrap_ftruncate64(int fd, off_t len) { main_touch("ftruncate", fd); return __real_ftruncate64(fd, len); }
// a mapping given up by the store is not returned to the system: the range stays reserved and inaccessible, so that a pointer
// into an old mapping faults whenever it is used after the remap (not only in the instant between munmap and mmap)
#include <sys/mman.h>
#ifndef MAP_PRIVATE
#define MAP_PRIVATE 0x02
#endif
#ifndef MAP_ANONYMOUS
#define MAP_ANONYMOUS 0x20        // Linux
#endif
#ifndef MAP_NORESERVE
#define MAP_NORESERVE 0x4000      // Linux
#endif
extern int __real_munmap(void *addr, size_t len);
static _Atomic size_t g_quarantined;
int __wrap_munmap(void *addr, size_t len) {
  if (len >= 4096 && atomic_load(&g_quarantined) + len < ((size_t) 24 << 30)) {
    void *p = mmap(addr, len, PROT_NONE, MAP_FIXED | MAP_PRIVATE | MAP_ANONYMOUS | MAP_NORESERVE, -1, 0);
    if (p == addr) { atomic_fetch_add(&g_quarantined, len); return 0; }
  }
  return __real_munmap(addr, len);
}
int __wrap_msync(void *addr, size_t len, int flags) { main_touch("msync", -1); return __real_msync(addr, len, flags); }

// ---------------------------------------------------------------- op interpreter
static IWDB find_db(Thr *t, const char *name) {
  if (name[0] == 'p') { int s = atoi(name + 1); return s >= 0 && s < NPRIV ? t->priv[s] : 0; }
  uint32_t id = (uint32_t) atoi(name);
  // looked up without the API (the handle a client would have kept)
  for (IWDB db = g_kv->first_db; db; db = db->next) if (db->id == id) return db;
  return 0;
}
static IWKV_cursor_op cop_of(const char *s) {
  if (!strcmp(s, "bf")) return IWKV_CURSOR_BEFORE_FIRST;
  if (!strcmp(s, "al")) return IWKV_CURSOR_AFTER_LAST;
  if (!strcmp(s, "nx")) return IWKV_CURSOR_NEXT;
  if (!strcmp(s, "pv")) return IWKV_CURSOR_PREV;
  if (!strcmp(s, "eq")) return IWKV_CURSOR_EQ;
  if (!strcmp(s, "ge")) return IWKV_CURSOR_GE;
  return 0;
}
static IWDB g_basedb[16];   // handles of the shared databases, fixed before the threads start
static IWDB g_seen[64];     // first handle iwkv_db() returned for a shared id in this case: every later call must return the same

static IWDB shared_db(const char *name) {
  int id = atoi(name);
  return id > 0 && id < 16 ? __atomic_load_n(&g_basedb[id], __ATOMIC_ACQUIRE) : 0;
}

static void exec_op(Thr *t, int idx) {
  Op *op = &t->ops[idx];
  char line[256], *w[10], eb[24];
  static __thread char vbuf[(1 << 19) + 64];
  snprintf(line, sizeof line, "%s", op->text);
  int n = hx_words(line, w, 10);
  SB out = { 0 };
  iwrc rc = 0;
  t->rec.opidx = idx; t->rec.ev.len = 0; if (t->rec.ev.s) t->rec.ev.s[0] = 0;
  t->rec.nev = 0;
  const char *k0 = w[0];
  IWDB db = 0;
  // resolve the database handle before the call is timed (a client holds handles, it does not look them up)
  if (n >= 2 && (!strcmp(k0, "put") || !strcmp(k0, "get") || !strcmp(k0, "del") || !strcmp(k0, "mset") || !strcmp(k0, "mget")))
    db = w[1][0] == 'p' ? find_db(t, w[1]) : shared_db(w[1]);
  if (n >= 3 && !strcmp(k0, "copen")) db = w[2][0] == 'p' ? find_db(t, w[2]) : shared_db(w[2]);
  op->inv = atomic_fetch_add(&g_clock, 1);
  if (!strcmp(k0, "put") && n >= 4) {
    size_t vl; mkval(vbuf, (size_t) atoi(w[3]), t->tid, idx, &vl);
    IWKV_val k = { .data = w[2], .size = strlen(w[2]) }, v = { .data = vbuf, .size = vl };
    if (!db) sb_puts(&out, "nodb"); else { rc = iwkv_put(db, &k, &v, n >= 5 ? (iwkv_opflags) atoi(w[4]) : 0); sb_puts(&out, rcname(rc, eb)); }
  } else if (!strcmp(k0, "get") && n >= 3) {
    IWKV_val k = { .data = w[2], .size = strlen(w[2]) }, v = { 0 };
    if (!db) sb_puts(&out, "nodb"); else if (n >= 4 && w[3][0] == 'c') {   // get <db> <key> c: iwkv_get_copy into the caller's buffer
      size_t vsz = 0;
      rc = iwkv_get_copy(db, &k, vbuf, sizeof vbuf, &vsz); sb_puts(&out, rcname(rc, eb));
      if (!rc) { sb_puts(&out, " "); fmtval(&out, vbuf, vsz < sizeof vbuf ? vsz : sizeof vbuf); }
    } else {
      rc = iwkv_get(db, &k, &v); sb_puts(&out, rcname(rc, eb));
      if (!rc) { sb_puts(&out, " "); fmtval(&out, v.data, v.size); iwkv_val_dispose(&v); }
    }
  } else if (!strcmp(k0, "del") && n >= 3) {
    IWKV_val k = { .data = w[2], .size = strlen(w[2]) };
    if (!db) sb_puts(&out, "nodb"); else { rc = iwkv_del(db, &k, 0); sb_puts(&out, rcname(rc, eb)); }
  } else if (!strcmp(k0, "copen") && n >= 4) {
    int c = atoi(w[1]) % NCUR;
    IWKV_val k = { .data = n >= 5 ? w[4] : 0, .size = n >= 5 ? strlen(w[4]) : 0 };
    if (!db || t->cur[c]) sb_puts(&out, "skip"); else {
      rc = iwkv_cursor_open(db, &t->cur[c], cop_of(w[3]), n >= 5 ? &k : 0); sb_puts(&out, rcname(rc, eb));
      if (rc) t->cur[c] = 0;
    }
  } else if (!strcmp(k0, "cto") && n >= 3) {
    int c = atoi(w[1]) % NCUR;
    if (!t->cur[c]) sb_puts(&out, "skip"); else { rc = iwkv_cursor_to(t->cur[c], cop_of(w[2])); sb_puts(&out, rcname(rc, eb)); }
  } else if (!strcmp(k0, "ctok") && n >= 4) {
    int c = atoi(w[1]) % NCUR;
    IWKV_val k = { .data = w[3], .size = strlen(w[3]) };
    if (!t->cur[c]) sb_puts(&out, "skip"); else { rc = iwkv_cursor_to_key(t->cur[c], cop_of(w[2]), &k); sb_puts(&out, rcname(rc, eb)); }
  } else if (!strcmp(k0, "cget") && n >= 2) {
    int c = atoi(w[1]) % NCUR;
    if (!t->cur[c]) sb_puts(&out, "skip"); else {
      IWKV_val k = { 0 }, v = { 0 };
      rc = iwkv_cursor_get(t->cur[c], &k, &v); sb_puts(&out, rcname(rc, eb));
      if (!rc) { sb_puts(&out, " "); sb_putn(&out, k.data, k.size); sb_puts(&out, "="); fmtval(&out, v.data, v.size); iwkv_kv_dispose(&k, &v); }
    }
  } else if (!strcmp(k0, "cset") && n >= 3) {
    int c = atoi(w[1]) % NCUR;
    size_t vl; mkval(vbuf, (size_t) atoi(w[2]), t->tid, idx, &vl);
    IWKV_val v = { .data = vbuf, .size = vl };
    if (!t->cur[c]) sb_puts(&out, "skip"); else { rc = iwkv_cursor_set(t->cur[c], &v, 0); sb_puts(&out, rcname(rc, eb)); }
  } else if (!strcmp(k0, "cdel") && n >= 2) {
    int c = atoi(w[1]) % NCUR;
    if (!t->cur[c]) sb_puts(&out, "skip"); else { rc = iwkv_cursor_del(t->cur[c], 0); sb_puts(&out, rcname(rc, eb)); }
  } else if (!strcmp(k0, "cclose") && n >= 2) {
    int c = atoi(w[1]) % NCUR;
    if (!t->cur[c]) sb_puts(&out, "skip"); else { rc = iwkv_cursor_close(&t->cur[c]); t->cur[c] = 0; sb_puts(&out, rcname(rc, eb)); }
  } else if (!strcmp(k0, "dbnew") && n >= 2) {
    int s = atoi(w[1]) % NPRIV; uint32_t id = 0;
    if (t->priv[s]) sb_puts(&out, "skip"); else {
      rc = iwkv_new_db(g_kv, 0, &id, &t->priv[s]); sb_puts(&out, rcname(rc, eb));
      if (!rc) { register_db(t->priv[s]); sb_printf(&out, " id=%u", id); } else t->priv[s] = 0;
    }
  } else if (!strcmp(k0, "dbdel") && n >= 2) {
    int s = atoi(w[1]) % NPRIV;
    if (!t->priv[s]) sb_puts(&out, "skip"); else { uint32_t id = t->priv[s]->id; rc = iwkv_db_destroy(&t->priv[s]); t->priv[s] = 0; sb_puts(&out, rcname(rc, eb)); sb_printf(&out, " id=%u", id); }
  } else if (!strcmp(k0, "dbget") && n >= 3) {   // iwkv_db on a shared id: lookup or create
    IWDB d2 = 0; uint32_t id = (uint32_t) atoi(w[1]);
    rc = iwkv_db(g_kv, id, (iwdb_flags_t) atoi(w[2]), &d2); sb_puts(&out, rcname(rc, eb));
    if (!rc && d2) {
      register_db(d2); sb_printf(&out, " flg=%u", (unsigned) d2->dbflg);
      if (id < 64) {
        IWDB first = 0;
        int same = __atomic_compare_exchange_n(&g_seen[id], &first, d2, 0, __ATOMIC_ACQ_REL, __ATOMIC_ACQUIRE) || first == d2;
        sb_printf(&out, " same=%d", same);
      }
      if (id < 16) __atomic_store_n(&g_basedb[id], d2, __ATOMIC_RELEASE);
    }
  } else if (!strcmp(k0, "sync")) {
    rc = iwkv_sync(g_kv, 0); sb_puts(&out, rcname(rc, eb));
  } else if (!strcmp(k0, "cp")) {
    rc = g_wal ? iwal_test_checkpoint(g_kv) : iwkv_sync(g_kv, 0); sb_puts(&out, rcname(rc, eb));
  } else if (!strcmp(k0, "state")) {
    IWFS_FSM_STATE st; rc = iwkv_state(g_kv, &st); sb_puts(&out, rcname(rc, eb));
  } else if (!strcmp(k0, "mset") && n >= 3) {
    size_t vl; mkval(vbuf, (size_t) atoi(w[2]), t->tid, idx, &vl);
    if (!db) sb_puts(&out, "nodb"); else { rc = iwkv_db_set_meta(db, vbuf, vl); sb_puts(&out, rcname(rc, eb)); }
  } else if (!strcmp(k0, "mget") && n >= 2) {
    size_t rsz = 0;
    if (!db) sb_puts(&out, "nodb"); else {
      rc = iwkv_db_get_meta(db, vbuf, 64, &rsz); sb_puts(&out, rcname(rc, eb));
      if (!rc) { sb_puts(&out, " "); size_t i = 0; while (i < rsz && vbuf[i] != '.') i++; sb_putn(&out, vbuf, i); }
    }
  } else if (!strcmp(k0, "bkp") && n >= 2) {
    char p[600]; snprintf(p, sizeof p, "%s.bkp%d", g_path, atoi(w[1]));
    uint64_t ts = 0;
    t->in_bkp = 1; t->last_stage = -1; t->bkp_no = atoi(w[1]);
    rc = iwkv_online_backup(g_kv, &ts, p);
    t->in_bkp = 0;
    if (g_sched && !rc) {
      // the backup ends by asking the checkpoint thread for a checkpoint: let it happen before the next
      // scheduled step, so that the schedule stays deterministic
      for (int i = 0; i < 2500 && hxs_wal_forcecp(g_kv); ++i) usleep(2000);
      void *g = hxs_wal_mtx(g_kv);
      if (g) { __real_pthread_mutex_lock(g); __real_pthread_mutex_unlock(g); }
    }
    sb_puts(&out, rcname(rc, eb));
  } else if (!strcmp(k0, "sleep") && n >= 2) {
    usleep(atoi(w[1])); sb_puts(&out, "ok");
  } else if (!strcmp(k0, "forcestage") && n >= 2) {   // test-only (F25 witness)
    hxs_wal_set_stage(g_kv, atoi(w[1])); sb_puts(&out, "ok");
  } else sb_puts(&out, "bad-op");
  op->res = atomic_fetch_add(&g_clock, 1);
  t->rec.opidx = -1;
  op->out = sb_take(&out);
  op->ev = strdup(t->rec.ev.s ? t->rec.ev.s : "");
  op->done = 1;
}

static void print_op(Thr *t, int i) {
  Op *op = &t->ops[i];
  printf("o %d %d %lu %lu %s | %s\n", t->tid, i, op->inv, op->res, op->out ? op->out : "-", op->text);
  if (op->ev && op->ev[0]) printf("ev %d %d %s\n", t->tid, i, op->ev);
}

static void *worker_free(void *a) {
  Thr *t = a; t_thr = t; t_rec = &t->rec;
  for (int i = 0; i < t->nops; ++i) exec_op(t, i);
  sem_post(&t->done);
  return 0;
}
static void *worker_sched(void *a) {
  Thr *t = a; t_thr = t; t_rec = &t->rec;
  for (;;) {
    sem_wait(&t->cmd);
    int i = t->cmd_idx;
    if (i < 0) break;
    exec_op(t, i);
    sem_post(&g_evt);
  }
  return 0;
}

static void print_op(Thr *t, int i);
static void hang_report(const char *why) {
  for (int i = 0; i < 8; ++i) for (int j = 0; j < g_thr[i].nops; ++j) if (g_thr[i].ops[j].done && !g_sched) print_op(&g_thr[i], j);
  printf("hang %s", why);
  for (int i = 0; i < MAXT; ++i) if (g_thr[i].started || i == 8) {
    Thr *t = &g_thr[i];
    int oi = t->rec.opidx;
    const char *wt = t->rec.waiting;
    if (oi >= 0) printf(" T%d@%d[%s]wait=%s", i, oi, oi < t->nops ? t->ops[oi].text : "?", wt ? wt : "-");
  }
  for (int i = 0; i < atomic_load(&g_nbg) && i < 8; ++i) printf(" B%d wait=%s", i, g_bg[i].waiting ? g_bg[i].waiting : "-");
  printf("\n"); fflush(stdout);
  _exit(3);
}
static int sem_wait_to(sem_t *s, int sec) {
  struct timespec ts; clock_gettime(CLOCK_REALTIME, &ts); ts.tv_sec += sec;
  int r; while ((r = sem_timedwait(s, &ts)) == -1 && errno == EINTR) ;
  return r;
}

static void add_op(Thr *t, const char *text) {
  if (t->nops >= MAXOPS) return;
  if (!t->ops) t->ops = calloc(MAXOPS, sizeof(Op));
  t->ops[t->nops++].text = strdup(text);
}

static int g_timeout = 30;
static void on_alarm(int sig) {
  (void) sig;
  static const char m[] = "hang main-thread-call\n";
  if (write(1, m, sizeof m - 1)) {}
  _exit(3);
}
static void guard_on(void) { signal(SIGALRM, on_alarm); alarm(g_timeout); }
static void guard_off(void) { alarm(0); }

static iwrc open_store(const char *path, int wal, int trunc, unsigned cpbuf, IWKV *kvp) {
  IWKV_OPTS o = { .path = path, .oflags = trunc ? IWKV_TRUNC : 0, .random_seed = 77,
                  .wal = { .enabled = wal, .checkpoint_buffer_sz = cpbuf, .savepoint_timeout_sec = 1000000, .checkpoint_timeout_sec = 2000000 } };
  return iwkv_open(&o, kvp);
}
// F25 detector: the log listener acknowledges a growth of the file ("handled") that nobody performs.
// Everything after that point is undefined (stores beyond the mapping), so the case stops here with a marker.
static iwrc (*g_orig_onresize)(struct iwdlsnr*, off_t, off_t, int, bool*);
static atomic_int g_nresize;
static iwrc hook_onresize(struct iwdlsnr *self, off_t osize, off_t nsize, int flags, bool *handled) {
  iwrc rc = g_orig_onresize(self, osize, nsize, flags, handled);
  if (!rc && *handled && nsize > osize) atomic_fetch_add(&g_nresize, 1);
  if (!rc && *handled && nsize > osize && g_kv && (struct iwdlsnr*) g_kv->dlsnr == self) {
    long long fs = hxs_exf_fsize(hxs_fsm_pool(&g_kv->fsm));
    if (fs != (long long) nsize) {
      printf("f25 resize-acknowledged-not-performed stage-now=%d\n", hxs_wal_stage(g_kv));
      fflush(stdout);
      _exit(4);
    }
  }
  return rc;
}
static void install_resize_hook(IWKV kv) {
  if (!kv->dlsnr) return;
  atomic_store(&g_nresize, 0);
  g_orig_onresize = kv->dlsnr->onresize;
  kv->dlsnr->onresize = hook_onresize;
}

static void register_store_locks(IWKV kv) {
  atomic_store(&g_nlk, 0);
  reg_lock(&kv->rwl, "S"); reg_lock(&kv->wk_mtx, "K");
  reg_lock(hxs_fsm_lock(&kv->fsm), "A");
  reg_lock(hxs_exf_lock(hxs_fsm_pool(&kv->fsm)), "F");
  reg_lock(hxs_wal_mtx(kv), "G");
}

static void close_case(void) {
  for (int i = 0; i < MAXT; ++i) {
    Thr *t = &g_thr[i];
    for (int j = 0; j < t->nops; ++j) { free(t->ops[j].text); free(t->ops[j].out); free(t->ops[j].ev); }
    free(t->ops); free(t->rec.ev.s);
    memset(t, 0, sizeof *t);
  }
  for (int i = 0; i < 8; ++i) { free(g_snap[i]); g_snap[i] = 0; free(g_bg[i].ev.s); memset(&g_bg[i], 0, sizeof g_bg[i]); }
  atomic_store(&g_nsnap, 0); atomic_store(&g_nbg, 0); atomic_store(&g_mainwrites, 0);
}

static void print_bg(void) {
  for (int i = 0; i < atomic_load(&g_nbg) && i < 8; ++i) {
    if (!g_bg[i].ev.s || !g_bg[i].ev.s[0]) continue;
    printf("bg %d", i);
    char *s = g_bg[i].ev.s, *tok; int budget = 4000;
    while ((tok = strsep(&s, " ")) && budget-- > 0) {
      if (!tok[0]) continue;
      void *a = 0; sscanf(tok + 2, "%p", &a);
      printf(" %c%s", tok[0], lk_name(a));
    }
    printf("\n");
  }
}

// open image n as an ordinary store and dump it
static void open_image(int n) {
  char p[600], cmd[1400]; snprintf(p, sizeof p, "%s.bkp%d", g_path, n);
  struct stat st;
  if (stat(p, &st)) { printf("img %d missing\n", n); return; }
  // work on a copy so that a replay can open the same image again
  char p2[620]; snprintf(p2, sizeof p2, "%s.open", p);
  snprintf(cmd, sizeof cmd, "cp '%s' '%s' && rm -f '%s-wal'", p, p2, p2);
  if (system(cmd)) { printf("img %d copy-failed\n", n); return; }
  IWKV kv2 = 0;
  g_recording = 0;
  iwrc rc = open_store(p2, 1, 0, 0, &kv2);
  if (rc) { char eb[24]; printf("img %d open-rc=%s\n", n, rcname(rc, eb)); g_recording = 1; return; }
  char *d = dump_store_api(kv2);
  rc = iwkv_close(&kv2);
  printf("img %d %s close=%" PRIu64 "\n", n, d, (uint64_t) rc);
  free(d);
  g_recording = 1;
}

int main(int argc, char **argv) {
  setvbuf(stdout, 0, _IOLBF, 0);
  if (argc < 2) { fprintf(stderr, "usage: h_conc <scratch-db-path>\n"); return 2; }
  snprintf(g_path, sizeof g_path, "%s", argv[1]);
  char *line = malloc(1 << 16), *w[16];
  t_rec = &g_main_rec;
  sem_init(&g_evt, 0, 0);
  int in_case = 0, nbkp = 0;
  unsigned cpbuf = 0;
  while (fgets(line, 1 << 16, stdin)) {
    size_t ll = strlen(line); while (ll && (line[ll - 1] == '\n' || line[ll - 1] == '\r')) line[--ll] = 0;
    if (!ll) continue;
    if (!strncmp(line, "case", 4)) {
      // case <name> mode=free|sched wal=0|1 nth=N yield=P dbs=N cpbuf=BYTES bkpdelay=US timeout=S
      char cp[512]; snprintf(cp, sizeof cp, "%s", line);
      int n = hx_words(cp, w, 16);
      g_sched = 0; g_wal = 0; g_nth = 2; g_yield = 0; cpbuf = 0; g_bkp_delay_us = 2000; g_timeout = 30; nbkp = 0;
      int ndbs = 2;
      for (int i = 2; i < n; ++i) {
        if (!strncmp(w[i], "mode=", 5)) g_sched = !strcmp(w[i] + 5, "sched");
        else if (!strncmp(w[i], "wal=", 4)) g_wal = atoi(w[i] + 4);
        else if (!strncmp(w[i], "nth=", 4)) g_nth = atoi(w[i] + 4);
        else if (!strncmp(w[i], "yield=", 6)) g_yield = atoi(w[i] + 6);
        else if (!strncmp(w[i], "dbs=", 4)) ndbs = atoi(w[i] + 4);
        else if (!strncmp(w[i], "cpbuf=", 6)) cpbuf = (unsigned) atol(w[i] + 6);
        else if (!strncmp(w[i], "bkpdelay=", 9)) g_bkp_delay_us = atoi(w[i] + 9);
        else if (!strncmp(w[i], "timeout=", 8)) g_timeout = atoi(w[i] + 8);
      }
      if (g_nth > 8) g_nth = 8;
      fprintf(stderr, "CASE %s\n", n > 1 ? w[1] : "?");
      printf("case %s\n", n > 1 ? w[1] : "?");
      atomic_store(&g_clock, 1);
      for (int i = 0; i < 8; ++i) {      // images of earlier cases must not be mistaken for this case's
        char f[700];
        snprintf(f, sizeof f, "%s.bkp%d", g_path, i); unlink(f);
        snprintf(f, sizeof f, "%s.bkp%d.open", g_path, i); unlink(f);
        snprintf(f, sizeof f, "%s.bkp%d.open-wal", g_path, i); unlink(f);
      }
      g_recording = 1;
      iwrc rc = open_store(g_path, g_wal, 1, cpbuf, &g_kv);
      if (rc) { printf("open-failed %" PRIu64 "\n", (uint64_t) rc); return 2; }
      register_store_locks(g_kv);
      install_resize_hook(g_kv);
      memset(g_basedb, 0, sizeof g_basedb); memset(g_seen, 0, sizeof g_seen);
      for (int i = 1; i <= ndbs && i < 16; ++i) { if (iwkv_db(g_kv, i, 0, &g_basedb[i])) { printf("db-failed\n"); return 2; } register_db(g_basedb[i]); g_seen[i] = g_basedb[i]; }
      for (int i = 0; i < MAXT; ++i) { g_thr[i].tid = i; g_thr[i].rec.tid = i; g_thr[i].rec.rs = 1000 + i * 77; g_thr[i].rec.opidx = -1; }
      t_thr = &g_thr[8];
      g_recording = 1;
      in_case = 1;
      if (g_sched) {
        for (int i = 0; i < g_nth; ++i) {
          Thr *t = &g_thr[i]; sem_init(&t->cmd, 0, 0); sem_init(&t->gate_go, 0, 0);
          pthread_create(&t->th, 0, worker_sched, t); t->started = 1;
        }
      }
      continue;
    }
    if (!in_case) { printf("bad-op\n"); continue; }
    if (!strcmp(line, "run")) {          // free mode: start all workers, wait, report
      for (int i = 0; i < g_nth; ++i) { Thr *t = &g_thr[i]; sem_init(&t->done, 0, 0); sem_init(&t->gate_go, 0, 0); }
      for (int i = 0; i < g_nth; ++i) { Thr *t = &g_thr[i]; pthread_create(&t->th, 0, worker_free, t); t->started = 1; }
      for (int i = 0; i < g_nth; ++i) if (sem_wait_to(&g_thr[i].done, g_timeout)) hang_report("run");
      for (int i = 0; i < g_nth; ++i) pthread_join(g_thr[i].th, 0);
      // cursors left open by the programs are closed here (sequentially, also logged)
      for (int i = 0; i < 8; ++i) { Thr *t = &g_thr[i]; for (int j = 0; j < t->nops; ++j) print_op(t, j); }
      for (int i = 0; i < g_nth; ++i) for (int c = 0; c < NCUR; ++c) if (g_thr[i].cur[c]) iwkv_cursor_close(&g_thr[i].cur[c]);
      continue;
    }
    if (!strcmp(line, "end")) {
      if (g_sched) {
        for (int i = 0; i < g_nth; ++i) while (g_thr[i].at_gate) {
          sem_post(&g_thr[i].gate_go);
          if (sem_wait_to(&g_evt, g_timeout)) hang_report("end-gate");
          if (!g_thr[i].at_gate) print_op(&g_thr[i], g_thr[i].cmd_idx);
        }
        for (int i = 0; i < g_nth; ++i) { Thr *t = &g_thr[i]; t->cmd_idx = -1; sem_post(&t->cmd); }
        for (int i = 0; i < g_nth; ++i) pthread_join(g_thr[i].th, 0);
        for (int i = 0; i < g_nth; ++i) for (int c = 0; c < NCUR; ++c) if (g_thr[i].cur[c]) iwkv_cursor_close(&g_thr[i].cur[c]);
      }
      for (int i = 0; i < 8; ++i) if (g_snap[i]) printf("snap %d %s\n", i, g_snap[i]);
      guard_on();
      char *d = dump_store_api(g_kv);
      guard_off();
      printf("dump %s\n", d); free(d);
      if (atomic_load(&g_excl_bad)) printf("exclbad %d %d\n", atomic_load(&g_excl_bad), atomic_load(&g_excl_bad_n));
      atomic_store(&g_excl_bad, 0);
      t_thr = 0;
      // close under the watchdog too (a corrupted lock count shows up here)
      {
        guard_on();
        iwrc rc = iwkv_close(&g_kv);
        guard_off();
        printf("close %" PRIu64 "\n", (uint64_t) rc);
      }
      g_recording = 0;
      print_bg();
      for (int i = 0; i < nbkp; ++i) open_image(i);
      printf("end\n");
      close_case();
      in_case = 0;
      continue;
    }
    if (!strncmp(line, "openimg", 7)) { open_image(atoi(line + 7)); continue; }
    if (!strcmp(line, "obs")) {
      char ob[4096]; hxs_wal_obs(g_kv, ob, sizeof ob);
      IWFS_EXT *pool = hxs_fsm_pool(&g_kv->fsm);
      printf("obs stage=%d %s fsize=%lld map=%lld nres=%d\n", hxs_wal_stage(g_kv), ob, hxs_exf_fsize(pool), hxs_exf_maplen(pool), atomic_load(&g_nresize));
      continue;
    }
    if (!strcmp(line, "dump")) {
      char *d = dump_store_api(g_kv); printf("dump %s\n", d); free(d); continue;
    }
    if (!strncmp(line, "gate", 4)) {     // sched mode: let the parked backup thread of <tid> run to its next stage boundary
      int tid = atoi(line + 4);
      Thr *t = &g_thr[tid % MAXT];
      if (!g_sched || !t->at_gate) { printf("gate none\n"); continue; }
      sem_post(&t->gate_go);
      if (sem_wait_to(&g_evt, g_timeout)) hang_report("gate");
      if (t->at_gate) printf("gate %d at=%d\n", tid, t->at_gate);
      else { print_op(t, t->cmd_idx); }
      continue;
    }
    // "<tid> <op...>"
    char *sp = strchr(line, ' ');
    if (!sp || line[0] < '0' || line[0] > '8') { printf("bad-op\n"); continue; }
    int tid = line[0] - '0';
    Thr *t = &g_thr[tid];
    if (!strncmp(sp + 1, "bkp", 3)) nbkp = atoi(sp + 5) + 1 > nbkp ? atoi(sp + 5) + 1 : nbkp;
    add_op(t, sp + 1);
    if (tid == 8) {                      // setup op: executed by the main thread right away
      t_rec = &t->rec; exec_op(t, t->nops - 1); t_rec = &g_main_rec;
      print_op(t, t->nops - 1);
      continue;
    }
    if (g_sched) {
      if (tid >= g_nth || t->at_gate) { printf("busy %d\n", tid); continue; }
      t->cmd_idx = t->nops - 1;
      sem_post(&t->cmd);
      if (sem_wait_to(&g_evt, g_timeout)) hang_report("sched");
      if (t->at_gate) printf("gate %d at=%d\n", tid, t->at_gate);
      else print_op(t, t->cmd_idx);
    }
  }
  return 0;
}
