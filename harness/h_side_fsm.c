// Side translation unit: reaches the file-static `struct fsm` (allocator) to name its lock.
// The library object iwfsmfile.o is left out at link time; this unit provides the same symbols.
#include "iwfsmfile.c"

void *hxs_fsm_lock(IWFS_FSM *f) {
  return f && f->impl ? (void*) ((struct fsm*) f->impl)->ctlrwlk : 0;
}

IWFS_EXT *hxs_fsm_pool(IWFS_FSM *f) {
  return f && f->impl ? &((struct fsm*) f->impl)->pool : 0;
}
