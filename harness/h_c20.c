// C20 harness: the real single-thread worker (iwstw.c) and thread pool (iwtp.c) under a
// deterministic scheduler.  Every thread that works on the executor is parked before each
// acquisition of the executor's mutex, inside each task, in pthread_cond_wait and in pthread_join
// (link-time --wrap of the pthread calls); the op file says which thread runs its next section.
// One result line per op line: "<thread>: <events> | <state read from the real struct>".
// A second mode ("stress ...") lets the threads run freely and records a trace.
#define _GNU_SOURCE
#include "hx.h"
#include "h_c20.h"
#include "iwstw.h"
#include "iwtp.h"
#include "iwlog.h"
#include <semaphore.h>
#include <stdarg.h>
#include <stdbool.h>
#include <errno.h>
#include <time.h>
#include <unistd.h>
#include <sched.h>

int __real_pthread_mutex_lock(pthread_mutex_t*);
int __real_pthread_mutex_unlock(pthread_mutex_t*);
int __real_pthread_cond_wait(pthread_cond_t*, pthread_mutex_t*);
int __real_pthread_cond_broadcast(pthread_cond_t*);
int __real_pthread_cond_signal(pthread_cond_t*);
int __real_pthread_create(pthread_t*, const pthread_attr_t*, void*(*)(void*), void*);
int __real_pthread_join(pthread_t, void**);
int __real_pthread_detach(pthread_t);

enum { ST_RUN, ST_LOCK, ST_TASK, ST_WAIT, ST_JOIN, ST_IDLE, ST_EXITED, ST_ZOMBIE };
enum { K_WORKER, K_CLIENT };
enum { CMD_NONE, CMD_SCHED, CMD_ONLY, CMD_EMPTY, CMD_SHUTDOWN, CMD_QUIT };

typedef struct cth {
  int kind, idx;
  pthread_t th;
  sem_t go;
  volatile int status;
  volatile int fresh;
  volatile int signalled;
  pthread_cond_t *volatile wc;
  struct cth *volatile join_target;
  void*(*fn)(void*);
  void *arg;
  volatile int cmd, cmd_task, cmd_wait;
  int tr_id;                 // free mode: thread number in the trace
  volatile int detached;     // pthread_detach was called: the pthread_t value may be reused by a later thread
} cth;

struct htask { int id; };
int c20_task_id(void *arg) { return arg ? ((struct htask*) arg)->id : -1; }

#define MAXW 16384
#define MAXC 16
static __thread cth *me;
static sem_t sched_sem;
static volatile int ctl_active;        // 1: deterministic scheduler, 0: threads run freely
static volatile int free_trace;        // 1: free mode with trace recording
static int exec_kind;                  // 0 none, 1 stw, 2 tp
static struct iwstw *g_stw;
static struct iwtp *g_tp;
static pthread_mutex_t *volatile exec_mtx;
static pthread_cond_t *volatile cond_w, *volatile cond_q;
static volatile int exec_freed;
static volatile int exec_ready;          // free mode: executor threads wait for this before they start
static cth *workers[MAXW];
static volatile int nworkers;
static cth *clients[MAXC];
static int nclients;
static volatile int cur_sel;

// ---------------------------------------------------------------- event buffer (controlled mode)
static char evbuf[1 << 20];
static size_t evlen;
static void ev(const char *fmt, ...) {
  if (evlen + 64 > sizeof(evbuf)) return;
  if (evlen) evbuf[evlen++] = ',';
  va_list ap;
  va_start(ap, fmt);
  evlen += vsnprintf(evbuf + evlen, sizeof(evbuf) - evlen, fmt, ap);
  va_end(ap);
}

// ---------------------------------------------------------------- free mode trace
// one record per event, appended under trace_mtx (a total order consistent with real time);
// events inside a critical section of the executor's mutex are appended while that mutex is held
static pthread_mutex_t trace_mtx = PTHREAD_MUTEX_INITIALIZER;
static char *trbuf;
static size_t trlen, trcap;
static volatile int tr_overflow;
static void tr(const char *fmt, ...) {
  __real_pthread_mutex_lock(&trace_mtx);
  if (trlen + 256 > trcap) tr_overflow = 1;
  else {
    va_list ap;
    va_start(ap, fmt);
    trlen += vsnprintf(trbuf + trlen, trcap - trlen, fmt, ap);
    va_end(ap);
    trbuf[trlen++] = '\n';
  }
  __real_pthread_mutex_unlock(&trace_mtx);
}
static int my_tr_id(void) { return me ? me->tr_id : -1; }

static void die(const char *what) {
  printf("harness-abort %s\n", what);
  fflush(stdout);
  _exit(3);
}

// ---------------------------------------------------------------- hand-over between scheduler and threads
static void park(int st) {
  me->status = st;
  sem_post(&sched_sem);
  while (sem_wait(&me->go) && errno == EINTR);
  me->status = ST_RUN;
}

static void grant(cth *t) {
  sem_post(&t->go);
  struct timespec ts;
  clock_gettime(CLOCK_REALTIME, &ts);
  ts.tv_sec += 20;
  int r;
  while ((r = sem_timedwait(&sched_sem, &ts)) && errno == EINTR);
  if (r) die("watchdog: a thread did not reach its next scheduling point within 20 s");
}

static int enabled(cth *t) {
  switch (t->status) {
    case ST_LOCK: case ST_TASK: return 1;
    case ST_WAIT: return t->signalled;
    case ST_JOIN: return t->join_target && t->join_target->status == ST_EXITED;
    default: return 0;
  }
}

// ---------------------------------------------------------------- pthread interposition
static int is_exec_mutex(pthread_mutex_t *m) { return m && m == exec_mtx; }

int __wrap_pthread_mutex_lock(pthread_mutex_t *m) {
  if (me && is_exec_mutex(m)) {
    if (ctl_active) {
      if (me->fresh) me->fresh = 0; else park(ST_LOCK);
    } else if (free_trace) {
      int r = __real_pthread_mutex_lock(m);
      tr("%d lock", my_tr_id());
      return r;
    }
  }
  return __real_pthread_mutex_lock(m);
}

static void free_snapshot(char *buf, size_t n);
static void st_before_free(void);

int __wrap_pthread_mutex_unlock(pthread_mutex_t *m) {
  if (me && !ctl_active && free_trace && is_exec_mutex(m)) {
    char sb[512];
    free_snapshot(sb, sizeof(sb));
    tr("%d unlock %s", my_tr_id(), sb);
  }
  return __real_pthread_mutex_unlock(m);
}

int __wrap_pthread_cond_wait(pthread_cond_t *c, pthread_mutex_t *m) {
  if (me && is_exec_mutex(m)) {
    if (ctl_active) {
      me->signalled = 0;
      me->wc = c;
      if (c == cond_q) ev("block:%d", me->idx);
      __real_pthread_mutex_unlock(m);
      park(ST_WAIT);
      __real_pthread_mutex_lock(m);
      me->wc = 0;
      return 0;
    } else if (free_trace) {
      char sb[512];
      free_snapshot(sb, sizeof(sb));
      tr("%d wait %c %s", my_tr_id(), c == cond_q ? 'q' : 'w', sb);
      int r = __real_pthread_cond_wait(c, m);
      tr("%d wake", my_tr_id());
      return r;
    }
  }
  return __real_pthread_cond_wait(c, m);
}

int __wrap_pthread_cond_broadcast(pthread_cond_t *c) {
  if (me && (c == cond_w || c == cond_q)) {
    if (ctl_active) {
      for (int i = 0; i < nworkers; ++i) if (workers[i]->status == ST_WAIT && workers[i]->wc == c) workers[i]->signalled = 1;
      for (int i = 0; i < nclients; ++i) if (clients[i]->status == ST_WAIT && clients[i]->wc == c) clients[i]->signalled = 1;
      ev("bcast:%c", c == cond_q ? 'q' : 'w');
      return 0;
    } else if (free_trace) {
      tr("%d bcast %c", my_tr_id(), c == cond_q ? 'q' : 'w');
    }
  }
  return __real_pthread_cond_broadcast(c);
}

int __wrap_pthread_cond_signal(pthread_cond_t *c) {
  if (me && (c == cond_w || c == cond_q)) {
    if (ctl_active) {
      static cth *w[MAXW + MAXC];
      int n = 0;
      for (int i = 0; i < nworkers; ++i) {
        if (workers[i]->status == ST_WAIT && workers[i]->wc == c && !workers[i]->signalled) w[n++] = workers[i];
      }
      for (int i = 0; i < nclients; ++i) {
        if (clients[i]->status == ST_WAIT && clients[i]->wc == c && !clients[i]->signalled) w[n++] = clients[i];
      }
      if (!n) ev("signal:-");
      else {
        cth *t = w[cur_sel % n];
        t->signalled = 1;
        ev("signal:%s%d", t->kind == K_CLIENT ? "c" : "", t->idx);
      }
      return 0;
    } else if (free_trace) {
      tr("%d signal", my_tr_id());
    }
  }
  return __real_pthread_cond_signal(c);
}

static void* tramp(void *op) {
  cth *c = op;
  me = c;
  if (ctl_active) {
    while (sem_wait(&c->go) && errno == EINTR);
    c->status = ST_RUN;
  } else {
    while (!__atomic_load_n(&exec_ready, __ATOMIC_ACQUIRE)) sched_yield();
  }
  void *r = c->fn(c->arg);
  if (ctl_active) {
    ev("exit:%d", c->idx);
    c->status = ST_EXITED;
    sem_post(&sched_sem);
  } else {
    if (free_trace) tr("%d exit", c->tr_id);
    c->status = ST_EXITED;
  }
  return r;
}

// every pthread_create that does not come from the harness itself starts an executor thread
static volatile int intercept_create;
int __wrap_pthread_create(pthread_t *th, const pthread_attr_t *a, void*(*fn)(void*), void *arg) {
  if (!intercept_create) return __real_pthread_create(th, a, fn, arg);
  if (nworkers >= MAXW) die("too many executor threads");
  cth *c = calloc(1, sizeof(*c));
  c->kind = K_WORKER;
  c->idx = nworkers;
  c->tr_id = 100 + nworkers;
  c->fn = fn;
  c->arg = arg;
  c->status = ST_LOCK;
  c->fresh = 1;
  sem_init(&c->go, 0, 0);
  workers[nworkers] = c;
  if (me) {
    if (ctl_active) ev("spawn:%d", c->idx);
    else if (free_trace) tr("%d spawn %d", my_tr_id(), c->tr_id);
  }
  int r = __real_pthread_create(&c->th, a, tramp, c);
  if (r) die("pthread_create failed");
  *th = c->th;
  nworkers = nworkers + 1;
  return 0;
}

int __wrap_pthread_detach(pthread_t th) {
  for (int i = 0; i < nworkers; ++i) {
    if (!workers[i]->detached && pthread_equal(workers[i]->th, th)) { workers[i]->detached = 1; break; }
  }
  return __real_pthread_detach(th);
}

int __wrap_pthread_join(pthread_t th, void **ret) {
  if (me && ctl_active) {
    for (int i = 0; i < nworkers; ++i) {
      if (!workers[i]->detached && pthread_equal(workers[i]->th, th)) {
        me->join_target = workers[i];
        ev("join:%d", me->idx);
        park(ST_JOIN);
        me->join_target = 0;
        break;
      }
    }
  } else if (me && free_trace) {
    int r = __real_pthread_join(th, ret);
    for (int i = 0; i < nworkers; ++i) if (!workers[i]->detached && pthread_equal(workers[i]->th, th)) tr("%d joined %d", my_tr_id(), workers[i]->tr_id);
    st_before_free();
    return r;
  }
  return __real_pthread_join(th, ret);
}

// ---------------------------------------------------------------- tasks, callbacks, client threads
static volatile int task_spin;       // free mode: busy-wait iterations inside a task
static void task_fn(void *arg) {
  int id = c20_task_id(arg);
  if (ctl_active) {
    ev("start:%d", id);
    park(ST_TASK);
    ev("fin:%d", id);
  } else {
    if (free_trace) tr("%d start %d", my_tr_id(), id);
    int n = task_spin ? (int) (((unsigned) id * 7919u) % (unsigned) task_spin) : 0;
    for (volatile int i = 0; i < n; ++i);
    if (n && (id & 7) == 0) sched_yield();
    if (free_trace) tr("%d fin %d", my_tr_id(), id);
  }
}

static void discard_cb(iwstw_task_f fn, void *arg) {
  int id = c20_task_id(arg);
  if (ctl_active) ev("discard:%d", id);
  else if (free_trace) tr("%d discard %d", my_tr_id(), id);
}

static const char* rcname(iwrc rc) {
  if (!rc) return "ok";
  if (rc == IW_ERROR_INVALID_STATE) return "invalid-state";
  if (rc == IW_ERROR_OVERFLOW) return "overflow";
  return "other";
}

static iwrc do_call(int cmd, int task, int wait, bool *flag) {
  iwrc rc = 0;
  struct htask *t = 0;
  if (cmd != CMD_SHUTDOWN) {
    t = malloc(sizeof(*t));
    t->id = task;
  }
  if (exec_kind == 1) {
    switch (cmd) {
      case CMD_SCHED: rc = iwstw_schedule(g_stw, task_fn, t); break;
      case CMD_ONLY: rc = iwstw_schedule_only(g_stw, task_fn, t); break;
      case CMD_EMPTY: rc = iwstw_schedule_empty_only(g_stw, task_fn, t, flag); break;
      case CMD_SHUTDOWN: {
        struct iwstw *p = g_stw;
        rc = iwstw_shutdown(&p, wait);
        if (!p) exec_freed = 1;
        break;
      }
    }
  } else {
    switch (cmd) {
      case CMD_SCHED: rc = iwtp_schedule(g_tp, task_fn, t); break;
      case CMD_SHUTDOWN: {
        struct iwtp *p = g_tp;
        rc = iwtp_shutdown(&p, wait);
        if (!p) exec_freed = 1;
        break;
      }
      default: rc = IW_ERROR_INVALID_STATE;
    }
  }
  return rc;
}

static void* client_main(void *op) {
  cth *c = op;
  me = c;
  while (sem_wait(&c->go) && errno == EINTR);
  for (;;) {
    c->status = ST_RUN;
    if (c->cmd == CMD_QUIT) break;
    bool flag = false;
    iwrc rc = do_call(c->cmd, c->cmd_task, c->cmd_wait, &flag);
    ev("ret:%d:%s:%d", c->idx, rcname(rc), (int) flag);
    park(ST_IDLE);
  }
  c->status = ST_EXITED;
  sem_post(&sched_sem);
  return 0;
}

static cth* new_client(int idx) {
  cth *c = calloc(1, sizeof(*c));
  c->kind = K_CLIENT;
  c->idx = idx;
  c->status = ST_IDLE;
  sem_init(&c->go, 0, 0);
  if (__real_pthread_create(&c->th, 0, client_main, c)) die("client thread");
  return c;
}

// ---------------------------------------------------------------- state line
static const char* stname(cth *t) {
  switch (t->status) {
    case ST_LOCK: return "L";
    case ST_TASK: return "R";
    case ST_WAIT: return t->signalled ? "W1" : "W0";
    case ST_JOIN: return "J";
    case ST_EXITED: return "X";
    case ST_IDLE: case ST_ZOMBIE: return "I";
    default: return "?";
  }
}

static void print_state(void) {
  static char sb[1 << 16];
  if (exec_freed) printf("freed");
  else {
    if (exec_kind == 1) c20_stw_snapshot(g_stw, sb, sizeof(sb), 4096); else c20_tp_snapshot(g_tp, sb, sizeof(sb), 4096);
    printf("%s", sb);
  }
  printf(" w=");
  for (int i = 0; i < nworkers; ++i) printf("%s%s", i ? "," : "", stname(workers[i]));
  printf(" c=");
  for (int i = 0; i < nclients; ++i) printf("%s%s", i ? "," : "", stname(clients[i]));
  printf("\n");
}

static void flush_line(const char *pre) {
  printf("%s%s | ", pre, evlen ? evbuf : "-");
  evlen = 0;
  evbuf[0] = 0;
  print_state();
}

// ---------------------------------------------------------------- scheduler operations
static void step_thread(cth *t, int sel) {
  if (!t || !enabled(t)) { ev("disabled"); return; }
  if (exec_freed && t->kind == K_CLIENT && (t->status == ST_LOCK || t->status == ST_WAIT)) {
    // the thread is about to lock a mutex inside freed memory: do not let it (it stays parked for good)
    ev("uaf:%d", t->idx);
    t->status = ST_ZOMBIE;
    clients[t->idx] = new_client(t->idx);
    return;
  }
  cur_sel = sel;
  grant(t);
}

static int list_enabled(cth **out) {
  int n = 0;
  for (int i = 0; i < nworkers; ++i) if (enabled(workers[i])) out[n++] = workers[i];
  for (int i = 0; i < nclients; ++i) if (enabled(clients[i])) out[n++] = clients[i];
  return n;
}

static int shutdown_flag(void) {
  if (exec_freed) return 1;
  return exec_kind == 1 ? c20_stw_shutdown_flag(g_stw) : c20_tp_shutdown_flag(g_tp);
}

static void do_call_op(int i, int cmd, int task, int wait) {
  if (i < 0 || i >= nclients) { ev("disabled"); return; }
  cth *c = clients[i];
  if (c->status != ST_IDLE) { ev("busy"); return; }
  c->cmd = cmd;
  c->cmd_task = task;
  c->cmd_wait = wait;
  grant(c);
}

// waiting shutdown from the first idle client (unless one was requested already), then run the first enabled thread until none is left
static void do_finish(void) {
  if (!exec_kind) return;
  static cth *en[MAXW + MAXC];
  for (int round = 0; round < 2; ++round) {
    // first round: let every call that is under way complete; second round: waiting shutdown from the first idle client
    if (round == 1 && !shutdown_flag()) {
      int pending = 0;
      for (int i = 0; i < nclients; ++i) if (clients[i]->status == ST_LOCK && clients[i]->cmd == CMD_SHUTDOWN) pending = 1;
      if (!pending) {
        for (int i = 0; i < nclients; ++i) {
          if (clients[i]->status == ST_IDLE) { do_call_op(i, CMD_SHUTDOWN, 0, 1); break; }
        }
      }
    }
    for (int fuel = 0; fuel < 200000; ++fuel) {
      int n = list_enabled(en);
      if (!n) break;
      step_thread(en[0], 0);
    }
  }
}

// run the enabled client threads (lowest index first) until none of them can move
static void do_settle(void) {
  for (int fuel = 0; fuel < 200000; ++fuel) {
    cth *t = 0;
    for (int i = 0; i < nclients && !t; ++i) if (enabled(clients[i])) t = clients[i];
    if (!t) break;
    step_thread(t, 0);
  }
}

static void teardown(void) {
  if (!exec_kind) return;
  if (!exec_freed) {
    do_finish();
    evlen = 0;
  }
  for (int i = 0; i < nclients; ++i) {
    cth *c = clients[i];
    if (c->status == ST_IDLE) {
      c->cmd = CMD_QUIT;
      grant(c);
      __real_pthread_join(c->th, 0);
      sem_destroy(&c->go);
      free(c);
    }
    clients[i] = 0;
  }
  for (int i = 0; i < nworkers; ++i) {
    if (workers[i]->status == ST_EXITED) { sem_destroy(&workers[i]->go); free(workers[i]); }
    workers[i] = 0;
  }
  nclients = 0;
  nworkers = 0;
  exec_kind = 0;
  g_stw = 0;
  g_tp = 0;
  exec_mtx = 0;
  cond_w = cond_q = 0;
  exec_freed = 0;
}

static int start_exec(int kind, int a, int b, int c) {
  intercept_create = 1;
  __atomic_store_n(&exec_ready, 0, __ATOMIC_RELEASE);
  iwrc rc;
  if (kind == 1) {
    rc = iwstw_start("c20", a, b, &g_stw);
    if (!rc && !g_stw) rc = 1;
    if (!rc) {
      if (c) iwstw_set_on_task_discard(g_stw, discard_cb);
      exec_mtx = c20_stw_mtx(g_stw);
      cond_w = c20_stw_cond(g_stw);
      cond_q = c20_stw_cond_queue(g_stw);
    }
  } else {
    struct iwtp_spec spec = { .thread_name_prefix = "c20-", .num_threads = a, .queue_limit = b, .overflow_threads_factor = c };
    rc = iwtp_start_by_spec(&spec, &g_tp);
    if (!rc) {
      exec_mtx = c20_tp_mtx(g_tp);
      cond_w = c20_tp_cond(g_tp);
      cond_q = 0;
    }
  }
  if (rc) return -1;
  exec_kind = kind;
  exec_freed = 0;
  __atomic_store_n(&exec_ready, 1, __ATOMIC_RELEASE);
  return 0;
}

#include "h_c20_stress.h"

int main(int argc, char **argv) {
  setvbuf(stdout, 0, _IOLBF, 0);
  sem_init(&sched_sem, 0, 0);
  char *line = malloc(HX_MAXLINE), *w[16];
  char pre[64];
  while (fgets(line, HX_MAXLINE, stdin)) {
    int n = hx_words(line, w, 16);
    if (!n) { printf("bad-op\n"); continue; }
    if (!strcmp(w[0], "new") && n == 6 && (!strcmp(w[1], "stw") || !strcmp(w[1], "tp"))) {
      teardown();
      ctl_active = 1;
      int kind = !strcmp(w[1], "stw") ? 1 : 2;
      int ncl = atoi(w[5]);
      if (ncl > MAXC) ncl = MAXC;
      if (start_exec(kind, atoi(w[2]), atoi(w[3]), atoi(w[4]))) { printf("start-failed\n"); continue; }
      for (int i = 0; i < ncl; ++i) clients[i] = new_client(i);
      nclients = ncl;
      evlen = 0;
      printf("new | ");
      print_state();
    } else if (!strcmp(w[0], "stress")) {
      teardown();
      do_stress(n, w);
    } else if (!strcmp(w[0], "selfsd")) {
      teardown();
      do_selfsd(n, w);
    } else if (!exec_kind) {
      if (!strcmp(w[0], "call") || !strcmp(w[0], "step") || !strcmp(w[0], "spur") || !strcmp(w[0], "pick") || !strcmp(w[0], "finish") || !strcmp(w[0], "settle") || !strcmp(w[0], "quiesce")) printf("no-executor\n");
      else printf("bad-op\n");
    } else if (!strcmp(w[0], "call") && n == 4) {
      int i = atoi(w[1]);
      int cmd = !strcmp(w[2], "sched") ? CMD_SCHED : !strcmp(w[2], "only") ? CMD_ONLY : !strcmp(w[2], "empty") ? CMD_EMPTY
                : !strcmp(w[2], "shutdown") ? CMD_SHUTDOWN : CMD_NONE;
      if (cmd == CMD_NONE) { printf("bad-op\n"); continue; }
      int arg = atoi(w[3]);
      do_call_op(i, cmd, arg, cmd == CMD_SHUTDOWN ? !strcmp(w[3], "1") : 0);
      snprintf(pre, sizeof(pre), "c%d: ", i);
      flush_line(pre);
    } else if (!strcmp(w[0], "step") && n == 4 && (w[1][0] == 'w' || w[1][0] == 'c') && !w[1][1]) {
      int idx = atoi(w[2]);
      cth *t = 0;
      if (w[1][0] == 'w') { if (idx >= 0 && idx < nworkers) t = workers[idx]; }
      else if (idx >= 0 && idx < nclients) t = clients[idx];
      step_thread(t, atoi(w[3]));
      snprintf(pre, sizeof(pre), "%c%d: ", w[1][0], idx);
      flush_line(pre);
    } else if (!strcmp(w[0], "spur") && n == 3 && (w[1][0] == 'w' || w[1][0] == 'c') && !w[1][1]) {
      int idx = atoi(w[2]);
      cth *t = 0;
      if (w[1][0] == 'w') { if (idx >= 0 && idx < nworkers) t = workers[idx]; }
      else if (idx >= 0 && idx < nclients) t = clients[idx];
      if (t && t->status == ST_WAIT) t->signalled = 1; else ev("disabled");
      snprintf(pre, sizeof(pre), "%c%d: ", w[1][0], idx);
      flush_line(pre);
    } else if (!strcmp(w[0], "pick") && n == 3) {
      static cth *en[MAXW + MAXC];
      int ne = list_enabled(en);
      if (!ne) { printf("none | "); print_state(); continue; }
      cth *t = en[strtoul(w[1], 0, 10) % ne];
      snprintf(pre, sizeof(pre), "%c%d: ", t->kind == K_WORKER ? 'w' : 'c', t->idx);
      step_thread(t, atoi(w[2]));
      flush_line(pre);
    } else if (!strcmp(w[0], "finish") && n == 1) {
      do_finish();
      flush_line("finish: ");
    } else if (!strcmp(w[0], "quiesce") && n == 1) {
      static cth *en[MAXW + MAXC];
      for (int fuel = 0; fuel < 200000; ++fuel) {
        if (!list_enabled(en)) break;
        step_thread(en[0], 0);
      }
      flush_line("quiesce: ");
    } else if (!strcmp(w[0], "settle") && n == 1) {
      do_settle();
      flush_line("settle: ");
    } else printf("bad-op\n");
  }
  teardown();
  fflush(stdout);
  return 0;
}
