// C04 harness: crash enumeration. A history (op lines between `hist-begin` and `hist-end`) is run in a forked
// child with the write-ahead log on; the child dies by _exit(137) immediately *before* its k-th file-system
// effect (write/pwrite/ftruncate/fsync/fdatasync/msync on the main file or the log, or the store of one log
// record into the MAP_SHARED mapping during a checkpoint/recovery).  Another child reopens the store (optionally
// dying itself at effect k2 of the recovery, followed by a third open) and reports an order-independent digest.
// Everything handed to the kernel before _exit survives in the page cache; the MAP_PRIVATE overlay and the log
// buffer are lost: exactly process death.
#include "iwkv_internal.h"
#include <string.h>
#include <unistd.h>
#include <sys/mman.h>
#include <sys/stat.h>
#include <sys/wait.h>
static void record_point(void);
// the only memset/memmove calls of iwal.c are the stores of SET/COPY/WRITE records in _rollforward_exl
#define memset(d_, c_, n_) (record_point(), memset((d_), (c_), (n_)))
#define memmove(d_, s_, n_) (record_point(), memmove((d_), (s_), (n_)))
#include "iwal.c"
#undef memset
#undef memmove
#include "hx.h"

enum { K_WRITE, K_PWRITE, K_FTRUNC, K_FSYNC, K_FDSYNC, K_MSYNC, K_RECORD, K_N };
static const char *KN[K_N] = { "write", "pwrite", "ftruncate", "fsync", "fdatasync", "msync", "record" };

struct prog {
  volatile long effects;       // effects performed so far (counting phase only)
  volatile long kinds[K_N];
  volatile int begun, done, synced, in_op, forced, crash_kind, crash_wal, crash_len0;
  volatile int obs_n;          // checkpoints observed (observe mode)
  volatile int ntrunc, stores; // log truncations so far; record stores since the last one
  char result[512];
};
static struct prog *P;
static long target = -1;       // die before effect #target; -1 = never
static int counting, observe;
static IWKV kv;
static char kvpath[512], walpath[520], obsdir[512];
static char **H; static int HN;   // history lines

int __real_ftruncate64(int, off_t);
ssize_t __real_write(int, const void*, size_t);
ssize_t __real_pwrite64(int, const void*, size_t, off_t);
int __real_fsync(int);
int __real_fdatasync(int);
int __real_msync(void*, size_t, int);

// 0 = other file, 1 = main file, 2 = log
static int fd_class(int fd) {
  static int cache[1024]; static ino_t ino_main, ino_wal; static int have;
  if (fd < 0 || fd >= 1024) return 0;
  struct stat st, sm, sw;
  if (fstat(fd, &st)) return 0;
  if (stat(kvpath, &sm) == 0 && st.st_ino == sm.st_ino && st.st_dev == sm.st_dev) return 1;
  if (stat(walpath, &sw) == 0 && st.st_ino == sw.st_ino && st.st_dev == sw.st_dev) return 2;
  return 0;
}
static long fsize(const char *p) { struct stat st; return stat(p, &st) ? -1 : (long) st.st_size; }
static uint8_t* slurp(const char *p, size_t *len) {
  FILE *f = fopen(p, "rb"); if (!f) { *len = 0; return 0; }
  fseek(f, 0, SEEK_END); long n = ftell(f); fseek(f, 0, SEEK_SET);
  uint8_t *b = malloc(n + 1); *len = fread(b, 1, n, f); fclose(f); return b;
}
static void copy_file(const char *from, const char *to) {
  size_t n; uint8_t *b = slurp(from, &n); if (!b) return;
  FILE *f = fopen(to, "wb"); if (f) { if (n) fwrite(b, 1, n, f); fclose(f); } free(b);
}
static void effect(int kind, int cls, int len0) {
  if (!counting || !cls) return;
  if (P->effects == target) { P->crash_kind = kind; P->crash_wal = (cls == 2); P->crash_len0 = len0; _exit(137); }
  P->effects++; P->kinds[kind]++;
}
static void obs_snap(const char *what) {
  char p[600]; snprintf(p, sizeof p, "%s/%s%d", obsdir, what, P->obs_n);
  copy_file(what[0] == 'w' ? walpath : kvpath, p);
}
static void record_point(void) {
  // a record is about to be stored into the shared mapping of the main file
  effect(K_RECORD, 1, 0);
  if (counting) P->stores++;
}
// the data listener's resize hook starts the checkpoint-without-savepoint (growth inside put, tail trim inside close)
static iwrc (*orig_onresize)(struct iwdlsnr*, off_t, off_t, int, bool*);
static iwrc my_onresize(struct iwdlsnr *self, off_t osize, off_t nsize, int flags, bool *handled) {
  if (counting && !((struct iwal*) self)->applying) P->forced = 1;
  return orig_onresize(self, osize, nsize, flags, handled);
}
ssize_t __wrap_write(int fd, const void *b, size_t n) { effect(K_WRITE, fd_class(fd), 0); return __real_write(fd, b, n); }
ssize_t __wrap_pwrite64(int fd, const void *b, size_t n, off_t o) { effect(K_PWRITE, fd_class(fd), 0); return __real_pwrite64(fd, b, n, o); }
int __wrap_ftruncate64(int fd, off_t len) {
  int cls = fd_class(fd);
  if (observe && counting && cls == 2 && len == 0) { obs_snap("wal"); obs_snap("post"); P->obs_n++; }
  effect(K_FTRUNC, cls, len == 0);
  if (counting && cls == 2 && len == 0) { P->ntrunc++; P->stores = 0; }
  return __real_ftruncate64(fd, len);
}
int __wrap_fsync(int fd) {
  int cls = fd_class(fd);
  if (observe && counting && cls == 2) obs_snap("pre");   // the log is flushed and synced before a roll-forward starts
  effect(K_FSYNC, cls, 0);
  int r = __real_fsync(fd);
  if (counting && cls == 2) {   // a savepoint record at the end of the synced log closes the window of a savepoint-less checkpoint
    uint8_t tail[12]; long sz = fsize(walpath);
    if (sz >= 12) { FILE *f = fopen(walpath, "rb"); if (f) { fseek(f, sz - 12, SEEK_SET);
      if (fread(tail, 1, 12, f) == 12 && tail[0] == WOP_SAVEPOINT && !tail[1] && !tail[2] && !tail[3]) P->forced = 0; fclose(f); } }
  }
  return r;
}
int __wrap_fdatasync(int fd) { effect(K_FDSYNC, fd_class(fd), 0); return __real_fdatasync(fd); }
int __wrap_msync(void *a, size_t n, int f) { effect(K_MSYNC, 1, 0); return __real_msync(a, n, f); }

static uint64_t fnv(uint64_t h, const void *p, size_t n) {
  const uint8_t *b = p; for (size_t i = 0; i < n; ++i) { h ^= b[i]; h *= 0x100000001b3ULL; } return h;
}
#define FNV0 0xcbf29ce484222325ULL
static void mkval(uint8_t *b, int len, unsigned seed) { for (int i = 0; i < len; ++i) b[i] = (uint8_t) (seed * 31 + i * 17 + (i >> 8)); }
static const char* rcname(iwrc rc) {
  static char b[32];
  if (!rc) return "0";
  if (rc == IWKV_ERROR_CORRUPTED_WAL_FILE) return "walcorrupt";
  if (rc == IWKV_ERROR_CORRUPTED) return "corrupted";
  if (rc == IWKV_ERROR_NOTFOUND) return "notfound";
  snprintf(b, sizeof b, "e%u", (unsigned) (rc & 0xffffffffu)); return b;
}
static iwrc digest(IWKV k, uint64_t *dig, uint64_t *cnt, int *ndb) {
  *dig = 0; *cnt = 0; *ndb = 0; iwrc rc = 0;
  for (struct iwdb *db = k->first_db; db && *ndb < 64; db = db->next) {
    ++*ndb;
    IWKV_cursor cur; rc = iwkv_cursor_open(db, &cur, IWKV_CURSOR_BEFORE_FIRST, 0); if (rc) return rc;
    while (*cnt < 200000) {
      rc = iwkv_cursor_to(cur, IWKV_CURSOR_NEXT);
      if (rc == IWKV_ERROR_NOTFOUND) { rc = 0; break; }
      if (rc) break;
      IWKV_val key, val; rc = iwkv_cursor_get(cur, &key, &val); if (rc) break;
      uint32_t id = db->id, kl = (uint32_t) key.size; uint64_t h = fnv(FNV0, &id, 4); h = fnv(h, &kl, 4);
      h = fnv(h, key.data, key.size); h = fnv(h, val.data, val.size);
      *dig += h; ++*cnt;
      iwkv_kv_dispose(&key, &val);
    }
    iwkv_cursor_close(&cur);
    if (rc) return rc;
  }
  return 0;
}
static IWDB find_db(uint32_t id) { for (struct iwdb *d = kv ? kv->first_db : 0; d; d = d->next) if (d->id == id) return d; return 0; }

static IWKV_OPTS mkopts(int trunc, int crc, size_t bufsz) {
  IWKV_OPTS o = { .path = kvpath, .oflags = trunc ? IWKV_TRUNC : 0, .random_seed = 20240504, .wal = { .enabled = true, .check_crc_on_checkpoint = crc != 0,
    .wal_buffer_sz = bufsz, .savepoint_timeout_sec = 2000000000u, .checkpoint_timeout_sec = 4000000000u } };
  return o;
}

// one history op; returns 1 when the op is a durable point (sync / new database / explicit checkpoint) that succeeded
static int hist_op(char *line, int *is_mut, iwrc *rcp) {
  char *w[16]; char tmp[1 << 12]; snprintf(tmp, sizeof tmp, "%s", line); int n = hx_words(tmp, w, 16);
  *is_mut = 0; *rcp = 0;
  if (!n) return 0;
  if (!strcmp(w[0], "db") && n == 2) { IWDB db; int isnew = !find_db((uint32_t) atol(w[1])); *rcp = iwkv_db(kv, (uint32_t) atol(w[1]), 0, &db); return isnew && !*rcp; }
  if (!strcmp(w[0], "sync")) { *rcp = iwkv_sync(kv, 0); return !*rcp; }
  if (!strcmp(w[0], "ckpt")) { *rcp = iwal_test_checkpoint(kv); return !*rcp; }
  if (!strcmp(w[0], "close")) { *rcp = iwkv_close(&kv); kv = 0; return !*rcp; }
  if ((!strcmp(w[0], "put") && n == 5) || (!strcmp(w[0], "del") && n == 3)) {
    IWDB db = find_db((uint32_t) atol(w[1])); if (!db) { *rcp = 1; return 0; }
    size_t kl; uint8_t *k = hx_parse(w[2], &kl); IWKV_val key = { .data = k, .size = kl };
    *is_mut = 1;
    if (w[0][0] == 'p') {
      int vl = atoi(w[3]); uint8_t *vb = malloc(vl + 1); mkval(vb, vl, (unsigned) atol(w[4]));
      IWKV_val val = { .data = vb, .size = (size_t) vl };
      *rcp = iwkv_put(db, &key, &val, 0); free(vb);
    } else { *rcp = iwkv_del(db, &key, 0); if (*rcp == IWKV_ERROR_NOTFOUND) *rcp = 0; }
    free(k);
  }
  return 0;
}

// child: set-up lines (before the `---` line) run uncounted, the rest is enumerated
static void run_history(int crc, size_t bufsz) {
  IWKV_OPTS o = mkopts(1, crc, bufsz);
  if (iwkv_open(&o, &kv)) _exit(3);
  if (kv->dlsnr) { orig_onresize = kv->dlsnr->onresize; kv->dlsnr->onresize = my_onresize; }
  int i = 0, mut; iwrc rc;
  for (; i < HN && strncmp(H[i], "---", 3); ++i) { hist_op(H[i], &mut, &rc); if (rc) _exit(4); }
  ++i;
  counting = 1;
  for (int k = 0; i < HN; ++i, ++k) {
    int isput = !strncmp(H[i], "put", 3) || !strncmp(H[i], "del", 3);
    P->begun = k + 1; P->in_op = isput;
    int durable = hist_op(H[i], &mut, &rc);
    P->in_op = 0;
    if (rc) _exit(5);
    P->done = k + 1;
    if (durable) P->synced = k + 1;
  }
  _exit(0);
}

// child: reopen, digest; dies before effect #target of the recovery when target >= 0
static void reopen(int crc) {
  IWKV_OPTS o = mkopts(0, crc, 4096);
  counting = 1;
  IWKV k2 = 0; iwrc rc = iwkv_open(&o, &k2);
  counting = 0;
  size_t mn; uint8_t *m = slurp(kvpath, &mn);
  int n = snprintf(P->result, sizeof P->result, "open=%s msz=%zu mh=%016" PRIx64, rcname(rc), mn, fnv(FNV0, m, mn));
  if (!rc) {
    uint64_t dg, c; int nd; iwrc r3 = digest(k2, &dg, &c, &nd);
    snprintf(P->result + n, sizeof P->result - n, " dig=%s:%016" PRIx64 ":%" PRIu64 ":%d", rcname(r3), dg, c, nd);
    g_trigger |= IWKVD_WAL_NO_CHECKPOINT_ON_CLOSE;
    iwkv_close(&k2);
  }
  _exit(0);
}

static int spawn_wait(void (*fn)(int, size_t), int a, size_t b, long tgt) {
  fflush(stdout);
  pid_t p = fork();
  if (!p) { target = tgt; fn(a, b); _exit(0); }
  int st = 0; waitpid(p, &st, 0);
  return WIFEXITED(st) ? WEXITSTATUS(st) : 1000 + WTERMSIG(st);
}
static void reopen2(int crc, size_t unused) { reopen(crc); }

int main(int argc, char **argv) {
  setvbuf(stdout, 0, _IOLBF, 0);
  P = mmap(0, sizeof *P, PROT_READ | PROT_WRITE, MAP_SHARED | MAP_ANONYMOUS, -1, 0);
  char *line = malloc(HX_MAXLINE), *w[16];
  iw_init();
  int crc = 0; size_t bufsz = 4096;
  while (fgets(line, HX_MAXLINE, stdin)) {
    char *copy = strdup(line);
    int n = hx_words(line, w, 16);
    if (!n) { printf("bad-op\n"); free(copy); continue; }
    if (!strcmp(w[0], "hist-begin") && n == 4) {       // hist-begin <path> <crc> <bufsz>, then op lines, then hist-end
      snprintf(kvpath, sizeof kvpath, "%s", w[1]); snprintf(walpath, sizeof walpath, "%s-wal", w[1]);
      crc = atoi(w[2]); bufsz = (size_t) atol(w[3]);
      for (int i = 0; i < HN; ++i) free(H[i]); free(H); H = 0; HN = 0;
      while (fgets(line, HX_MAXLINE, stdin) && strncmp(line, "hist-end", 8)) { H = realloc(H, sizeof(char*) * (HN + 1)); H[HN++] = strdup(line); }
      printf("hist %d\n", HN);
    } else if (!strcmp(w[0], "count") && (n == 1 || n == 2)) {   // count [obsdir]: full run; with obsdir, snapshot every checkpoint
      memset(P, 0, sizeof *P);
      observe = n == 2; if (observe) snprintf(obsdir, sizeof obsdir, "%s", w[1]);
      int st = spawn_wait(run_history, crc, bufsz, -1);
      observe = 0;
      printf("count st=%d effects=%ld done=%d ckpts=%d", st, P->effects, P->done, P->obs_n);
      for (int k = 0; k < K_N; ++k) printf(" %s=%ld", KN[k], P->kinds[k]);
      printf("\n");
    } else if (!strcmp(w[0], "crash") && (n == 2 || n == 3)) {  // crash <k> [<k2>]
      memset(P, 0, sizeof *P);
      long k1 = atol(w[1]);
      int st = spawn_wait(run_history, crc, bufsz, k1);
      printf("crash k=%ld st=%d at=%s%s%s begun=%d done=%d synced=%d forced=%d", k1, st, st == 137 ? KN[P->crash_kind] : "none",
             st == 137 ? (P->crash_wal ? ".wal" : ".main") : "", (st == 137 && P->crash_len0) ? ".0" : "", P->begun, P->done, P->synced, P->forced);
      struct prog keep = *P;
      if (st == 137 && P->crash_kind == K_RECORD) {   // the main file as the killed checkpoint left it
        size_t mn; uint8_t *m = slurp(kvpath, &mn);
        printf(" ck=%d stores=%d cmsz=%zu cmh=%016" PRIx64, P->ntrunc, P->stores, mn, fnv(FNV0, m, mn)); free(m);
      }
      if (n == 3) {      // die inside the recovery too, then recover again
        P->effects = 0; P->result[0] = 0;
        int st2 = spawn_wait(reopen2, crc, 0, atol(w[2]));
        printf(" rst=%d rat=%s", st2, st2 == 137 ? KN[P->crash_kind] : "none");
      }
      P->effects = 0; P->result[0] = 0;
      int st3 = spawn_wait(reopen2, crc, 0, -1);
      if (st3 == 0 && P->result[0]) printf(" | %s\n", P->result); else printf(" | open=DIED:%d\n", st3);
      (void) keep;
    } else if (!strcmp(w[0], "partial") && n == 7) {  // partial <pre> <wal> <k> <crc> <msz> <mh>: echo of what a killed checkpoint left
      printf("partial msz=%s mh=%s\n", w[5], w[6]);
    } else if (!strcmp(w[0], "ckpt") && n == 4) {     // ckpt <pre> <wal> <post>: what the real checkpoint left in the main file
      size_t mn; uint8_t *m = slurp(w[3], &mn);
      if (!m) printf("ckpt missing\n"); else printf("ckpt rc=ok msz=%zu mh=%016" PRIx64 "\n", mn, fnv(FNV0, m, mn));
      free(m);
    } else printf("bad-op\n");
    free(copy);
  }
  fflush(stdout);
  return 0;
}
