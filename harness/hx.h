// Shared helpers for the line-protocol harnesses.
#pragma once
#include <stdio.h>
#include <stdlib.h>
#include <string.h>
#include <stdint.h>
#include <inttypes.h>

#define HX_MAXLINE (1 << 22)

static inline int hx_val(int c) {
  if (c >= '0' && c <= '9') return c - '0';
  if (c >= 'a' && c <= 'f') return c - 'a' + 10;
  if (c >= 'A' && c <= 'F') return c - 'A' + 10;
  return -1;
}
// "-" = empty. Returns malloc'ed buffer (size+1, NUL terminated for convenience), sets *len.
static inline uint8_t* hx_parse(const char *s, size_t *len) {
  size_t n = strlen(s);
  if (n == 1 && s[0] == '-') n = 0;
  uint8_t *b = malloc(n / 2 + 1);
  for (size_t i = 0; i + 1 < n; i += 2) b[i / 2] = (uint8_t) (hx_val(s[i]) * 16 + hx_val(s[i + 1]));
  b[n / 2] = 0;
  *len = n / 2;
  return b;
}
static inline void hx_print(FILE *f, const void *p, size_t n) {
  const uint8_t *b = p;
  if (!n) { fputc('-', f); return; }
  for (size_t i = 0; i < n; ++i) fprintf(f, "%02x", b[i]);
}
static inline int hx_sgn(long long v) { return v < 0 ? -1 : v > 0 ? 1 : 0; }
// split a line into words in place; returns count
static inline int hx_words(char *line, char **w, int maxw) {
  int n = 0;
  char *p = line;
  while (*p && n < maxw) {
    while (*p == ' ' || *p == '\n' || *p == '\r') *p++ = 0;
    if (!*p) break;
    w[n++] = p;
    while (*p && *p != ' ' && *p != '\n' && *p != '\r') p++;
  }
  return n;
}
