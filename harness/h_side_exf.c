// Side translation unit: reaches the file-static `EXF` (extensible file) to name its lock.
#include "iwexfile.c"

void *hxs_exf_lock(IWFS_EXT *f) {
  return f && f->impl ? (void*) f->impl->rwlock : 0;
}

long long hxs_exf_fsize(IWFS_EXT *f) {
  return f && f->impl ? (long long) f->impl->fsize : -1;
}

// length of the first mapping window (what the KV layer stores through)
long long hxs_exf_maplen(IWFS_EXT *f) {
  return f && f->impl && f->impl->mmslots ? (long long) f->impl->mmslots->len : -1;
}

int hxs_exf_fd(IWFS_EXT *f) {
  return f && f->impl ? (int) f->impl->fh : -1;
}
