// Writer-side tie of the WAL model (C04/C05): runs a KV history with the write-ahead log on and records, in order,
// (1) every call of the WAL's data listener (wrappers installed around the function pointers of `struct iwal.lsnr`),
// (2) every savepoint record creation / checkpoint end (through the clock calls of `_savepoint_exl`/`_checkpoint_exl`),
// (3) every system call on the log file (write/fsync/ftruncate, link-time --wrap),
// (4) the writer's flags after each listener call and each API call.
// The python side feeds the listener events to the Lean writer model and compares system calls, flags and files.
#define iwal_create iwal_create_real
#define iwp_current_time_ms hx_time_ms
#include "iwal.c"
#undef iwal_create
#undef iwp_current_time_ms
#include "hx.h"
#include <sys/stat.h>
#include <unistd.h>

iwrc iwp_current_time_ms(uint64_t *time, bool monotonic);   // the real one

static IWKV kv;
static char kvpath[512], walpath[520];
static FILE *EV;             // event file; recording when non-null
static int g_walfd = -1;
static long n_ev;

#define FNV0 0xcbf29ce484222325ULL
static uint64_t fnv(uint64_t h, const void *p, size_t n) {
  const uint8_t *b = p; for (size_t i = 0; i < n; ++i) { h ^= b[i]; h *= 0x100000001b3ULL; } return h;
}
static long fsize(const char *p) { struct stat st; return stat(p, &st) ? -1 : (long) st.st_size; }
static uint8_t* slurp(const char *p, size_t *len) {
  FILE *f = fopen(p, "rb"); if (!f) { *len = 0; return 0; }
  fseek(f, 0, SEEK_END); long n = ftell(f); fseek(f, 0, SEEK_SET);
  uint8_t *b = malloc(n + 1); *len = fread(b, 1, n, f); fclose(f); return b;
}
static int spit(const char *p, const uint8_t *b, size_t n) {
  FILE *f = fopen(p, "wb"); if (!f) return -1; size_t w = n ? fwrite(b, 1, n, f) : 0; fclose(f); return w == n ? 0 : -1;
}
static long copy_file(const char *from, const char *to) {
  size_t n; uint8_t *b = slurp(from, &n); if (!b) return -1; int r = spit(to, b, n); free(b); return r ? -1 : (long) n;
}
static void mkval(uint8_t *b, int len, unsigned seed) { for (int i = 0; i < len; ++i) b[i] = (uint8_t) (seed * 31 + i * 17 + (i >> 8)); }
static const char* rcname(iwrc rc) {
  static char b[32];
  if (!rc) return "0";
  if (rc == IWKV_ERROR_NOTFOUND) return "notfound";
  snprintf(b, sizeof b, "e%u", (unsigned) (rc & 0xffffffffu)); return b;
}
static struct iwal* the_wal(void) { return kv ? (struct iwal*) kv->dlsnr : 0; }

static void ev_state(struct iwal *wal) {
  if (!EV) return;
  if (wal) fprintf(EV, "st bufpos=%u synched=%d mbytes=%zu wsz=%ld\n", wal->bufpos, (int) wal->synched, (size_t) wal->mbytes, fsize(walpath));
  else fprintf(EV, "st closed wsz=%ld\n", fsize(walpath));
}

// ---- clock: `monotonic == false` is asked for exactly when a savepoint record is built; `true` at the end of a checkpoint
iwrc hx_time_ms(uint64_t *time, bool monotonic) {
  iwrc rc = iwp_current_time_ms(time, monotonic);
  if (EV) {
    ++n_ev;
    if (!monotonic) fprintf(EV, "time0 %" PRIu64 "\n", *time);
    else {
      size_t mn; uint8_t *m = slurp(kvpath, &mn);
      fprintf(EV, "time1 msz=%zu mh=%016" PRIx64 "\n", mn, fnv(FNV0, m, mn)); free(m);
    }
  }
  return rc;
}

// ---- listener wrappers
static IWDLSNR orig;
static iwrc w_onset(struct iwdlsnr *self, off_t off, uint8_t val, off_t len, int flags) {
  struct iwal *wal = (struct iwal*) self;
  if (EV && !wal->applying) { ++n_ev; fprintf(EV, "set %lld %u %lld\n", (long long) off, (unsigned) val, (long long) len); }
  iwrc rc = orig.onset(self, off, val, len, flags);
  if (!wal->applying) ev_state(wal);
  return rc;
}
static iwrc w_oncopy(struct iwdlsnr *self, off_t off, off_t len, off_t noff, int flags) {
  struct iwal *wal = (struct iwal*) self;
  if (EV && !wal->applying) { ++n_ev; fprintf(EV, "copy %lld %lld %lld\n", (long long) off, (long long) len, (long long) noff); }
  iwrc rc = orig.oncopy(self, off, len, noff, flags);
  if (!wal->applying) ev_state(wal);
  return rc;
}
static iwrc w_onwrite(struct iwdlsnr *self, off_t off, const void *buf, off_t len, int flags) {
  struct iwal *wal = (struct iwal*) self;
  if (EV && !wal->applying) { ++n_ev; fprintf(EV, "write %lld ", (long long) off); hx_print(EV, buf, (size_t) len); fputc('\n', EV); }
  iwrc rc = orig.onwrite(self, off, buf, len, flags);
  if (!wal->applying) ev_state(wal);
  return rc;
}
static iwrc w_onresize(struct iwdlsnr *self, off_t osize, off_t nsize, int flags, bool *handled) {
  struct iwal *wal = (struct iwal*) self;
  int app = wal->applying;
  if (EV && !app) { ++n_ev; fprintf(EV, "resize %lld %lld\n", (long long) osize, (long long) nsize); }
  iwrc rc = orig.onresize(self, osize, nsize, flags, handled);
  if (!app) ev_state(wal);
  return rc;
}
static iwrc w_onsynced(struct iwdlsnr *self, int flags) {
  struct iwal *wal = (struct iwal*) self;
  if (EV && !wal->applying) { ++n_ev; fprintf(EV, "synced\n"); }
  iwrc rc = orig.onsynced(self, flags);
  if (!wal->applying) ev_state(wal);
  return rc;
}

iwrc iwal_create(struct iwkv *iwkv, const struct iwkv_opts *opts, IWFS_FSM_OPTS *fsmopts, bool recover_backup) {
  iwrc rc = iwal_create_real(iwkv, opts, fsmopts, recover_backup);
  if (!rc && iwkv->dlsnr) {
    struct iwal *wal = (struct iwal*) iwkv->dlsnr;
    orig = wal->lsnr;
    wal->lsnr.onset = w_onset; wal->lsnr.oncopy = w_oncopy; wal->lsnr.onwrite = w_onwrite;
    wal->lsnr.onresize = w_onresize; wal->lsnr.onsynced = w_onsynced;
    g_walfd = wal->fh;
  }
  return rc;
}

// ---- system calls on the log file
int __real_ftruncate64(int, off_t);
ssize_t __real_write(int, const void*, size_t);
int __real_fsync(int);
int __real_fdatasync(int);
ssize_t __wrap_write(int fd, const void *buf, size_t n) {
  if (EV && fd >= 0 && fd == g_walfd) fprintf(EV, "W %zu %016" PRIx64 "\n", n, fnv(FNV0, buf, n));
  return __real_write(fd, buf, n);
}
int __wrap_fsync(int fd) {
  if (EV && fd >= 0 && fd == g_walfd) fprintf(EV, "F\n");
  return __real_fsync(fd);
}
int __wrap_fdatasync(int fd) {
  if (EV && fd >= 0 && fd == g_walfd) fprintf(EV, "F\n");
  return __real_fdatasync(fd);
}
int __wrap_ftruncate64(int fd, off_t len) {
  if (EV && fd >= 0 && fd == g_walfd) fprintf(EV, "T %lld\n", (long long) len);
  return __real_ftruncate64(fd, len);
}

static IWDB find_db(uint32_t id) { for (struct iwdb *d = kv ? kv->first_db : 0; d; d = d->next) if (d->id == id) return d; return 0; }

static void tail_status(void) {
  struct iwal *wal = the_wal();
  printf(" wsz=%ld bufpos=%u ev=%ld\n", fsize(walpath), wal ? wal->bufpos : 0, n_ev);
}

static void exec_line(char *line) {
  char *copy = strdup(line);
  for (char *p = copy; *p; ++p) if (*p == '\n' || *p == '\r') *p = 0;
  char *w[16]; int n = hx_words(line, w, 16);
  if (!n) { printf("bad-op\n"); free(copy); return; }
  int api = 0;
  if (!strcmp(w[0], "open") && n == 4) {            // open <path> <crc> <bufsz>: fresh store, WAL on
    snprintf(kvpath, sizeof kvpath, "%s", w[1]); snprintf(walpath, sizeof walpath, "%s-wal", w[1]);
    IWKV_OPTS o = { .path = kvpath, .oflags = IWKV_TRUNC, .random_seed = 20240504, .wal = { .enabled = true, .check_crc_on_checkpoint = atoi(w[2]) != 0,
      .wal_buffer_sz = (size_t) atol(w[3]), .savepoint_timeout_sec = 2000000000u, .checkpoint_timeout_sec = 4000000000u } };
    iwrc rc = iwkv_open(&o, &kv);
    printf("open %s", rcname(rc)); tail_status();
  } else if (!strcmp(w[0], "rec") && n == 3 && kv) {   // rec <evfile> <mainsnap>: start recording at a clean point
    struct iwal *wal = the_wal();
    if (!wal || wal->bufpos || fsize(walpath) != 0) { printf("rec dirty\n"); free(copy); return; }
    long m = copy_file(kvpath, w[2]);
    EV = fopen(w[1], "w");
    n_ev = 0;
    printf("rec %s bufsz=%u crc=%d msz=%ld synched=%d mbytes=%zu\n", EV ? "ok" : "failed", wal->bufsz, (int) wal->check_cp_crc, m,
           (int) wal->synched, (size_t) wal->mbytes);
  } else if (!strcmp(w[0], "stop")) {
    if (EV) fclose(EV);
    EV = 0; printf("stop %ld\n", n_ev);
  } else if (!strcmp(w[0], "db") && n == 2 && kv) {
    if (EV) fprintf(EV, "# %s\n", copy);
    IWDB db; iwrc rc = iwkv_db(kv, (uint32_t) atol(w[1]), 0, &db); api = 1;
    printf("db %s", rcname(rc)); tail_status();
  } else if (((!strcmp(w[0], "put") && n == 5) || (!strcmp(w[0], "del") && n == 3)) && kv) {
    IWDB db = find_db((uint32_t) atol(w[1]));
    if (!db) { printf("%s nodb\n", w[0]); free(copy); return; }
    if (EV) fprintf(EV, "# %s\n", copy);
    size_t kl; uint8_t *k = hx_parse(w[2], &kl); IWKV_val key = { .data = k, .size = kl };
    iwrc rc;
    if (w[0][0] == 'p') {
      int vl = atoi(w[3]); uint8_t *vb = malloc(vl + 1); mkval(vb, vl, (unsigned) atol(w[4]));
      IWKV_val val = { .data = vb, .size = (size_t) vl };
      rc = iwkv_put(db, &key, &val, 0); free(vb);
    } else rc = iwkv_del(db, &key, 0);
    free(k); api = 1;
    printf("%s %s", w[0], rcname(rc)); tail_status();
  } else if (!strcmp(w[0], "sync") && kv) {
    if (EV) fprintf(EV, "# %s\n", copy);
    iwrc rc = iwkv_sync(kv, 0); api = 1; printf("sync %s", rcname(rc)); tail_status();
  } else if (!strcmp(w[0], "ckpt") && kv) {
    if (EV) fprintf(EV, "# %s\n", copy);
    iwrc rc = iwal_test_checkpoint(kv); api = 1; printf("ckpt %s", rcname(rc)); tail_status();
  } else if (!strcmp(w[0], "raw") && n >= 2 && kv && the_wal()) {
    // raw <kind> ...: the data listener called directly (no KV operation): events iwkv itself never or rarely produces —
    // payloads that fill the buffer exactly, headers that just fit / just do not fit, WBCOPY, onsynced.  `fitK` as a length means
    // "what makes the payload fill the buffer exactly" + K (K may be negative).
    struct iwal *wal = the_wal();
    if (EV) fprintf(EV, "# %s\n", copy);
    iwrc rc = 0;
    long room = (long) wal->bufsz - (long) wal->bufpos;
    if (!strcmp(w[1], "write") && n == 5) {          // raw write <off> <len|fitK> <seed>
      long len = !strncmp(w[3], "fit", 3) ? room - 20 + atol(w[3] + 3) : atol(w[3]);
      if (room < 20) len = !strncmp(w[3], "fit", 3) ? (long) wal->bufsz - 20 + atol(w[3] + 3) : len;   // the header will be flushed first
      if (len < 0) len = 0;
      uint8_t *vb = malloc(len + 1); mkval(vb, (int) len, (unsigned) atol(w[4]));
      rc = wal->lsnr.onwrite(&wal->lsnr, (off_t) atoll(w[2]), vb, (off_t) len, 0); free(vb);
    } else if (!strcmp(w[1], "room") && n == 5) {    // raw room <off> <r> <seed>: a write that leaves exactly r bytes free in the buffer
      long len = room - 20 - atol(w[3]);
      if (len < 0) len = 0;
      uint8_t *vb = malloc(len + 1); mkval(vb, (int) len, (unsigned) atol(w[4]));
      rc = wal->lsnr.onwrite(&wal->lsnr, (off_t) atoll(w[2]), vb, (off_t) len, 0); free(vb);
    } else if (!strcmp(w[1], "set") && n == 5) {
      rc = wal->lsnr.onset(&wal->lsnr, (off_t) atoll(w[2]), (uint8_t) atoi(w[3]), (off_t) atoll(w[4]), 0);
    } else if (!strcmp(w[1], "copy") && n == 5) {
      rc = wal->lsnr.oncopy(&wal->lsnr, (off_t) atoll(w[2]), (off_t) atoll(w[3]), (off_t) atoll(w[4]), 0);
    } else if (!strcmp(w[1], "synced") && n == 2) {
      rc = wal->lsnr.onsynced(&wal->lsnr, 0);
    } else { printf("bad-op\n"); free(copy); return; }
    printf("raw %s", rcname(rc)); tail_status();
  } else if (!strcmp(w[0], "snap") && n == 4 && kv) {   // snap <main> <wal> <buf>: files as they are on disk now + the log buffer
    struct iwal *wal = the_wal();
    long a = copy_file(kvpath, w[1]), b = copy_file(walpath, w[2]);
    if (wal) spit(w[3], wal->buf, wal->bufpos);
    if (EV) fprintf(EV, "snap %s %s %s\n", w[1], w[2], w[3]);
    printf("snap %ld %ld bufpos=%u\n", a, b, wal ? wal->bufpos : 0);
  } else if (!strcmp(w[0], "close")) {
    if (EV) fprintf(EV, "# %s\n", copy);
    iwrc rc = kv ? iwkv_close(&kv) : 0; kv = 0; g_walfd = -1;
    if (EV) ev_state(0);
    printf("close %s\n", rcname(rc));
  } else if (!strcmp(w[0], "recov") && n == 5 && !kv && !EV) {   // recov <work.db> <main> <wal> <crc>: the next open after a kill at that snapshot
    char wp[520]; snprintf(wp, sizeof wp, "%s-wal", w[1]);
    if (copy_file(w[2], w[1]) < 0 || copy_file(w[3], wp) < 0) { printf("recov failed\n"); free(copy); return; }
    IWKV_OPTS o = { .path = w[1], .wal = { .enabled = true, .check_crc_on_checkpoint = atoi(w[4]) != 0, .wal_buffer_sz = 4096,
      .savepoint_timeout_sec = 2000000000u, .checkpoint_timeout_sec = 4000000000u } };
    IWKV k2 = 0; iwrc rc = iwkv_open(&o, &k2);
    size_t mn; uint8_t *m = slurp(w[1], &mn);
    printf("recover rc=%s msz=%zu mh=%016" PRIx64 " wsz=%ld\n", !rc ? "ok" : rc == IWKV_ERROR_CORRUPTED_WAL_FILE ? "walcorrupt" : rcname(rc),
           mn, fnv(FNV0, m, mn), fsize(wp));
    free(m);
    if (!rc) {
      g_trigger |= IWKVD_WAL_NO_CHECKPOINT_ON_CLOSE;
      iwkv_close(&k2);
      g_trigger &= ~IWKVD_WAL_NO_CHECKPOINT_ON_CLOSE;
    }
    g_walfd = -1;
  } else printf("bad-op\n");
  if (api && EV) ev_state(the_wal());
  free(copy);
}

static iwrc quiet_log(FILE *out, locale_t locale, iwlog_lvl lvl, iwrc ecode, int errno_code, int werror_code, const char *file,
                      int line, uint64_t ts, void *opts, const char *fmt, va_list argp, bool no_va) { return 0; }

int main(int argc, char **argv) {
  setvbuf(stdout, 0, _IOLBF, 0);
  char *line = malloc(HX_MAXLINE);
  iw_init();
  iwlog_set_logfn(quiet_log, 0);
  while (fgets(line, HX_MAXLINE, stdin)) exec_line(line);
  if (EV) fclose(EV);
  fflush(stdout);
  return 0;
}
