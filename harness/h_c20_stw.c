// C20: white-box access to struct iwstw (the library object iwstw.o is left out at link time)
#include "iwstw.c"
#include "h_c20.h"

pthread_mutex_t* c20_stw_mtx(struct iwstw *s) { return &s->mtx; }
pthread_cond_t* c20_stw_cond(struct iwstw *s) { return &s->cond; }
pthread_cond_t* c20_stw_cond_queue(struct iwstw *s) { return &s->cond_queue; }
int c20_stw_shutdown_flag(struct iwstw *s) { return s->shutdown; }

// "q=<ids> cnt=<n> qb=<0|1> sd=<0|1>"
void c20_stw_snapshot(struct iwstw *s, char *out, size_t n, int maxq) {
  size_t p = 0;
  p += snprintf(out + p, n - p, "q=");
  int k = 0;
  int more = 0;
  for (struct _task *t = s->head; t && k + more < 1000000; t = t->next) {
    if (k < maxq && p + 32 < n) { p += snprintf(out + p, n - p, "%s%d", k ? "," : "", c20_task_id(t->arg)); ++k; } else ++more;
  }
  if (!k) p += snprintf(out + p, n - p, "-");
  if (more) p += snprintf(out + p, n - p, "+%d", more);
  snprintf(out + p, n - p, " cnt=%d qb=%d sd=%d", s->cnt, (int) s->queue_blocked, (int) s->shutdown);
}
