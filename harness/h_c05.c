// C05 harness: (1) runs KV histories with the write-ahead log on and snapshots main file + log,
// (2) recovers (pre-image, damaged log) pairs through the real iwkv_open, (3) exposes the file-static pre-scan.
// One result line per op line.  iwal.c is included for the static functions and struct iwal.
#include "iwal.c"
#include "hx.h"
#include <sys/stat.h>
#include <unistd.h>

static IWKV kv;
static char kvpath[512], walpath[520];
static int n_trunc;          // WAL truncations seen (ftruncate(walfd, 0))
static int in_backup, bkp_arm, bkp_k;
static char bkp_pre[512], bkp_wal[512];
static char *g_line;

// ---- libc interposers (link-time --wrap)
int __real_ftruncate64(int, off_t);
ssize_t __real_pread64(int, void*, size_t, off_t);
ssize_t __real_write(int, const void*, size_t);
static int wal_fd(void) { return (kv && kv->dlsnr) ? ((struct iwal*) kv->dlsnr)->fh : -1; }
int __wrap_ftruncate64(int fd, off_t len) {
  if (len == 0 && fd >= 0 && fd == wal_fd()) n_trunc++;
  return __real_ftruncate64(fd, len);
}
static void exec_line(char *line);
static long copy_file(const char *from, const char *to);
ssize_t __wrap_pread64(int fd, void *buf, size_t n, off_t off) {
  if (bkp_arm && fd == wal_fd()) {
    // first read of the log by iwal_online_backup (stage WAL_COPY1, no lock held): act as a concurrent writer
    bkp_arm = 0;
    for (int i = 0; i < bkp_k; ++i) {
      if (!fgets(g_line, HX_MAXLINE, stdin)) break;
      exec_line(g_line);
    }
  }
  return __real_pread64(fd, buf, n, off);
}
ssize_t __wrap_write(int fd, const void *buf, size_t n) {
  if (in_backup && n == 4) {
    uint32_t lv; memcpy(&lv, buf, 4);
    if (lv == IW_HTOIL(IWKV_BACKUP_MAGIC)) {
      // trailer of the backup image: exclusive lock held, log complete up to the COPY2 savepoint
      if (bkp_pre[0]) copy_file(kvpath, bkp_pre);
      if (bkp_wal[0]) copy_file(walpath, bkp_wal);
    }
  }
  return __real_write(fd, buf, n);
}

// ---- helpers
static long fsize(const char *p) { struct stat st; return stat(p, &st) ? -1 : (long) st.st_size; }
static uint8_t* slurp(const char *p, size_t *len) {
  FILE *f = fopen(p, "rb"); if (!f) { *len = 0; return 0; }
  fseek(f, 0, SEEK_END); long n = ftell(f); fseek(f, 0, SEEK_SET);
  uint8_t *b = malloc(n + 1); *len = fread(b, 1, n, f); fclose(f); return b;
}
static int spit(const char *p, const uint8_t *b, size_t n) {
  FILE *f = fopen(p, "wb"); if (!f) return -1; size_t w = n ? fwrite(b, 1, n, f) : 0; fclose(f); return w == n ? 0 : -1;
}
static long copy_file(const char *from, const char *to) {
  size_t n; uint8_t *b = slurp(from, &n); if (!b) return -1; int r = spit(to, b, n); free(b); return r ? -1 : (long) n;
}
static uint64_t fnv(uint64_t h, const void *p, size_t n) {
  const uint8_t *b = p; for (size_t i = 0; i < n; ++i) { h ^= b[i]; h *= 0x100000001b3ULL; } return h;
}
#define FNV0 0xcbf29ce484222325ULL
static void mkval(uint8_t *b, int len, unsigned seed) { for (int i = 0; i < len; ++i) b[i] = (uint8_t) (seed * 31 + i * 17 + (i >> 8)); }
static const char* rcname(iwrc rc) {
  static char b[32];
  if (!rc) return "0";
  if (rc == IWKV_ERROR_CORRUPTED_WAL_FILE) return "walcorrupt";
  if (rc == IWKV_ERROR_CORRUPTED) return "corrupted";
  if (rc == IWKV_ERROR_NOTFOUND) return "notfound";
  if (rc == IWFS_ERROR_MAXOFF) return "maxoff";
  snprintf(b, sizeof b, "e%u", (unsigned) (rc & 0xffffffffu)); return b;
}
// order-independent digest of all records of all databases: sum of per-record FNV-1a, plus count
static iwrc digest(IWKV k, uint64_t *dig, uint64_t *cnt, int *ndb) {
  *dig = 0; *cnt = 0; *ndb = 0; iwrc rc = 0;
  for (struct iwdb *db = k->first_db; db && *ndb < 64; db = db->next) {
    ++*ndb;
    IWKV_cursor cur; rc = iwkv_cursor_open(db, &cur, IWKV_CURSOR_BEFORE_FIRST, 0); if (rc) return rc;
    while (*cnt < 200000) {
      rc = iwkv_cursor_to(cur, IWKV_CURSOR_NEXT);
      if (rc == IWKV_ERROR_NOTFOUND) { rc = 0; break; }
      if (rc) break;
      IWKV_val key, val; rc = iwkv_cursor_get(cur, &key, &val); if (rc) break;
      uint32_t id = db->id, kl = (uint32_t) key.size; uint64_t h = fnv(FNV0, &id, 4); h = fnv(h, &kl, 4);
      h = fnv(h, key.data, key.size); h = fnv(h, val.data, val.size);
      *dig += h; ++*cnt;
      iwkv_kv_dispose(&key, &val);
    }
    iwkv_cursor_close(&cur);
    if (rc) return rc;
  }
  return 0;
}
static IWDB find_db(uint32_t id) { for (struct iwdb *d = kv ? kv->first_db : 0; d; d = d->next) if (d->id == id) return d; return 0; }

// loaded pair for scan/rec
static uint8_t *L_pre, *L_wal; static size_t L_pren, L_waln;

// damaged copy of the loaded log: cut to `cut` bytes, then xor masks "pos:xx,pos:xx" ("-" = none)
static uint8_t* damaged(size_t cut, const char *flips, size_t *outn) {
  if (cut > L_waln) cut = L_waln;
  uint8_t *b = malloc(cut + 1); if (cut) memcpy(b, L_wal, cut); *outn = cut;
  if (strcmp(flips, "-")) {
    const char *p = flips;
    while (*p) { char *e; unsigned long pos = strtoul(p, &e, 10); if (*e != ':') break; unsigned long m = strtoul(e + 1, &e, 16);
      if (pos < cut) b[pos] ^= (uint8_t) m; p = (*e == ',') ? e + 1 : e; if (*e != ',') break; }
  }
  return b;
}

static void tail_status(void) {
  struct iwal *wal = kv ? (struct iwal*) kv->dlsnr : 0;
  printf(" wsz=%ld trunc=%d rfo=%lld\n", fsize(walpath), n_trunc, wal ? (long long) wal->rollforward_offset : -1LL);
}

static int g_norebase;   // 1: leave the log as a forced checkpoint left it (record-kind scan of the async stream)

static void exec_line(char *line) {
  char *w[16]; int n = hx_words(line, w, 16);
  if (!n) { printf("bad-op\n"); return; }
  if (!strcmp(w[0], "norebase") && n == 2) { g_norebase = atoi(w[1]); printf("norebase %d\n", g_norebase); return; }
  if (!strcmp(w[0], "open") && n == 4) {            // open <path> <crc> <bufsz>: fresh store, WAL on
    snprintf(kvpath, sizeof kvpath, "%s", w[1]); snprintf(walpath, sizeof walpath, "%s-wal", w[1]);
    IWKV_OPTS o = { .path = kvpath, .oflags = IWKV_TRUNC, .wal = { .enabled = true, .check_crc_on_checkpoint = atoi(w[2]) != 0,
      .wal_buffer_sz = (size_t) atol(w[3]), .savepoint_timeout_sec = 2000000000u, .checkpoint_timeout_sec = 4000000000u } };
    n_trunc = 0;
    iwrc rc = iwkv_open(&o, &kv);
    printf("open %s", rcname(rc)); tail_status();
  } else if (!strcmp(w[0], "db") && n == 2 && kv) {   // create/open database (a savepoint when new)
    IWDB db; iwrc rc = iwkv_db(kv, (uint32_t) atol(w[1]), 0, &db);
    printf("db %s", rcname(rc)); tail_status();
  } else if ((!strcmp(w[0], "put") && (n == 5 || n == 6)) || (!strcmp(w[0], "del") && (n == 3 || n == 4))) {
    // a trailing `s` = IWKV_SYNC: the call pokes the log's worker thread, which takes a savepoint on its own
    iwkv_opflags fl = ((w[0][0] == 'p' && n == 6) || (w[0][0] == 'd' && n == 4)) ? IWKV_SYNC : 0;
    IWDB db = find_db((uint32_t) atol(w[1]));
    if (!db) { printf("%s nodb\n", w[0]); return; }
    size_t kl; uint8_t *k = hx_parse(w[2], &kl); IWKV_val key = { .data = k, .size = kl };
    int t0 = n_trunc; iwrc rc;
    if (w[0][0] == 'p') {
      int vl = atoi(w[3]); uint8_t *vb = malloc(vl + 1); mkval(vb, vl, (unsigned) atol(w[4]));
      IWKV_val val = { .data = vb, .size = (size_t) vl };
      rc = iwkv_put(db, &key, &val, fl); free(vb);
    } else rc = iwkv_del(db, &key, fl);
    free(k);
    int rebased = 0;
    if (n_trunc != t0 && !in_backup && !g_norebase) {   // file growth forced a checkpoint inside the operation: re-base on a clean checkpoint
      iwrc r2 = iwal_test_checkpoint(kv); rebased = r2 ? -1 : 1;
    }
    printf("%s %s rebased=%d", w[0], rcname(rc), rebased); tail_status();
  } else if (!strcmp(w[0], "sync") && kv) {
    iwrc rc = iwkv_sync(kv, 0); printf("sync %s", rcname(rc)); tail_status();
  } else if (!strcmp(w[0], "ckpt") && kv) {
    iwrc rc = iwal_test_checkpoint(kv); printf("ckpt %s", rcname(rc)); tail_status();
  } else if (!strcmp(w[0], "dig") && kv) {
    uint64_t d, c; int nd; iwrc rc = digest(kv, &d, &c, &nd);
    printf("dig %s %016" PRIx64 " %" PRIu64 " %d\n", rcname(rc), d, c, nd);
  } else if (!strcmp(w[0], "snap") && n == 3 && kv) {   // copy main file and log as they are on disk now
    struct iwal *wal = (struct iwal*) kv->dlsnr;
    long a = copy_file(kvpath, w[1]), b = copy_file(walpath, w[2]);
    printf("snap %ld %ld bufpos=%u trunc=%d\n", a, b, wal ? wal->bufpos : 0, n_trunc);
  } else if (!strcmp(w[0], "backup") && n == 5 && kv) {  // backup <target> <k> <presnap> <walsnap>; next k lines run in stage WAL_COPY1
    bkp_k = atoi(w[2]); bkp_arm = 1; in_backup = 1;
    snprintf(bkp_pre, sizeof bkp_pre, "%s", strcmp(w[3], "-") ? w[3] : ""); snprintf(bkp_wal, sizeof bkp_wal, "%s", strcmp(w[4], "-") ? w[4] : "");
    char target[512]; snprintf(target, sizeof target, "%s", w[1]);
    uint64_t ts; iwrc rc = iwal_online_backup(kv, &ts, target);
    in_backup = 0;
    // the backup ends by poking a forced checkpoint: wait until the checkpoint thread has done it
    struct iwal *wal = (struct iwal*) kv->dlsnr;
    for (int i = 0; i < 500 && wal && (wal->force_cp || fsize(walpath) > 0); ++i) iwp_sleep(10);
    printf("backup %s armed=%d bsz=%ld", rcname(rc), bkp_arm, fsize(target)); tail_status();
    bkp_arm = 0;
  } else if (!strcmp(w[0], "close")) {
    iwrc rc = kv ? iwkv_close(&kv) : 0; kv = 0; printf("close %s\n", rcname(rc));
  } else if (!strcmp(w[0], "load") && n == 3) {         // load <prefile> <walfile>
    free(L_pre); free(L_wal);
    L_pre = slurp(w[1], &L_pren); L_wal = slurp(w[2], &L_waln);
    if (!L_pre || !L_wal) printf("load failed\n"); else printf("load %zu %zu\n", L_pren, L_waln);
  } else if (!strcmp(w[0], "split") && n == 4) {        // split <backupimage> <prefile> <walfile>: undo the image trailer
    size_t bn; uint8_t *b = slurp(w[1], &bn); uint64_t off = 0; uint32_t mg = 0;
    if (b && bn >= 12) { memcpy(&off, b + bn - 12, 8); memcpy(&mg, b + bn - 4, 4); }
    if (!b || mg != IWKV_BACKUP_MAGIC || off > bn - 12) printf("split failed\n");
    else { spit(w[2], b, off); spit(w[3], b + off, bn - 12 - off); printf("split %" PRIu64 " %zu\n", off, (size_t) (bn - 12 - off)); }
    free(b);
  } else if (!strcmp(w[0], "scan") && n == 3 && L_wal) { // scan <cut> <flips>: the pre-scan alone, on an exact-size heap copy
    size_t dn; uint8_t *d = damaged((size_t) atol(w[1]), w[2], &dn);
    uint8_t *ex = malloc(dn ? dn : 1); if (dn) memcpy(ex, d, dn);
    off_t fpos = -1, rpos = -1; _last_fix_and_reset_points(0, ex, (off_t) dn, &fpos, &rpos);
    printf("scan %lld %lld\n", (long long) fpos, (long long) rpos);
    free(ex); free(d);
  } else if (!strcmp(w[0], "rec") && n == 6 && L_wal) {  // rec <work.db> <mode 1|2> <crc> <cut> <flips>
    char wp[520]; snprintf(wp, sizeof wp, "%s-wal", w[1]);
    int mode = atoi(w[2]), crc = atoi(w[3]); size_t dn; uint8_t *d = damaged((size_t) atol(w[4]), w[5], &dn);
    if (mode == 2) {   // online-backup image: main copy, log, main length, magic
      uint8_t *img = malloc(L_pren + dn + 12); memcpy(img, L_pre, L_pren); if (dn) memcpy(img + L_pren, d, dn);
      uint64_t off = L_pren; uint32_t mg = IWKV_BACKUP_MAGIC; memcpy(img + L_pren + dn, &off, 8); memcpy(img + L_pren + dn + 8, &mg, 4);
      spit(w[1], img, L_pren + dn + 12); free(img); unlink(wp);
    } else { spit(w[1], L_pre, L_pren); spit(wp, d, dn); }
    free(d);
    IWKV_OPTS o = { .path = w[1], .wal = { .enabled = true, .check_crc_on_checkpoint = crc != 0, .wal_buffer_sz = 4096,
      .savepoint_timeout_sec = 2000000000u, .checkpoint_timeout_sec = 4000000000u } };
    IWKV k2 = 0; iwrc rc = iwkv_open(&o, &k2);
    size_t mn; uint8_t *m = slurp(w[1], &mn);
    const char *cls = !rc ? "ok" : rc == IWKV_ERROR_CORRUPTED_WAL_FILE ? "walcorrupt" : rc == IWFS_ERROR_MAXOFF ? "ioerr" : "ok";
    // a failure after a completed roll-forward (unreadable store) is classed by what the log layer did; open= carries the rc
    printf("rec rc=%s msz=%zu mh=%016" PRIx64 " wsz=%ld", cls, mn, fnv(FNV0, m, mn), fsize(wp));
    free(m);
    printf(" | open=%s", rcname(rc));
    if (!rc) {
      uint64_t dg, c; int nd; iwrc r3 = digest(k2, &dg, &c, &nd);
      printf(" dig=%s:%016" PRIx64 ":%" PRIu64 ":%d", rcname(r3), dg, c, nd);
      // the recovered store must be usable: one more record, a savepoint, a regular close (with its checkpoint), reopen, read it back
      const char *post = "ok";
      IWDB pdb = 0; iwrc r4 = r3 ? r3 : iwkv_db(k2, 1, 0, &pdb);
      IWKV_val pk = { .data = "zz-after-recovery", .size = 17 }, pv = { .data = "x", .size = 1 }, gv = { 0 };
      if (!r4) r4 = iwkv_put(pdb, &pk, &pv, 0);
      if (!r4) r4 = iwkv_sync(k2, 0);
      if (r4) post = r3 ? "unread" : "use-failed";
      r4 = iwkv_close(&k2);
      if (r4 && !strcmp(post, "ok")) post = "close-failed";
      if (!strcmp(post, "ok")) {
        IWKV k3 = 0; r4 = iwkv_open(&o, &k3);
        if (r4) post = "reopen-failed";
        else {
          r4 = iwkv_db(k3, 1, 0, &pdb);
          if (!r4) r4 = iwkv_get(pdb, &pk, &gv);
          if (r4 || gv.size != 1) post = "record-lost";
          if (!r4) iwkv_val_dispose(&gv);
          uint64_t d2, c2; int nd2; iwrc r5 = digest(k3, &d2, &c2, &nd2);
          if (!strcmp(post, "ok") && (r5 || c2 != c + 1)) post = "contents-changed";
          iwkv_close(&k3);
        }
      }
      printf(" post=%s", post);
    }
    printf("\n");
  } else if (!strcmp(w[0], "roll") && n == 6 && L_wal) {  // roll <work.db> <mode 1|2> <crc> <cut> <flips>: _rollforward_exl alone
    char wp[520]; snprintf(wp, sizeof wp, "%s-wal", w[1]);
    int mode = atoi(w[2]), crc = atoi(w[3]); size_t dn; uint8_t *d = damaged((size_t) atol(w[4]), w[5], &dn);
    spit(w[1], L_pre, L_pren); spit(wp, d, dn); free(d);
    struct iwkv fk; memset(&fk, 0, sizeof fk);
    struct iwal fw; memset(&fw, 0, sizeof fw);
    fw.iwkv = &fk; fw.check_cp_crc = crc != 0; fw.fh = open(wp, O_RDWR);
    IWFS_EXT extf;
    IWFS_EXT_OPTS eo = { .file = { .path = w[1], .omode = IWFS_OCREATE | IWFS_OWRITE }, .use_locks = false, .maxoff = IWKV_MAX_DBSZ };
    iwrc rc = iwfs_exfile_open(&extf, &eo);
    if (!rc) {
      off_t fsz = 0; iwp_lseek(fw.fh, 0, IWP_SEEK_END, &fsz);
      if (fsz) rc = _rollforward_exl(&fw, &extf, mode);   // _recover_wl returns early on an empty log
      IWRC(extf.close(&extf), rc);
    }
    close(fw.fh);
    size_t mn; uint8_t *m = slurp(w[1], &mn);
    const char *cls = !rc ? "ok" : rc == IWKV_ERROR_CORRUPTED_WAL_FILE ? "walcorrupt" : rc == IWFS_ERROR_MAXOFF ? "ioerr" : rcname(rc);
    printf("roll rc=%s msz=%zu mh=%016" PRIx64 " wsz=%ld\n", cls, mn, fnv(FNV0, m, mn), fsize(wp));
    free(m);
  } else printf("bad-op\n");
}

static iwrc quiet_log(FILE *out, locale_t locale, iwlog_lvl lvl, iwrc ecode, int errno_code, int werror_code, const char *file,
                      int line, uint64_t ts, void *opts, const char *fmt, va_list argp, bool no_va) { return 0; }

int main(int argc, char **argv) {
  setvbuf(stdout, 0, _IOLBF, 0);
  g_line = malloc(HX_MAXLINE);
  iw_init();
  iwlog_set_logfn(quiet_log, 0);
  while (fgets(g_line, HX_MAXLINE, stdin)) exec_line(g_line);
  fflush(stdout);
  return 0;
}
