// C20: white-box access to struct iwtp (the library object iwtp.o is left out at link time)
#include "iwtp.c"
#include "h_c20.h"

pthread_mutex_t* c20_tp_mtx(struct iwtp *s) { return &s->mtx; }
pthread_cond_t* c20_tp_cond(struct iwtp *s) { return &s->cond; }
int c20_tp_shutdown_flag(struct iwtp *s) { return s->shutdown; }

// "q=<ids> qs=<n> busy=<n> nt=<n> sd=<0|1>"
void c20_tp_snapshot(struct iwtp *s, char *out, size_t n, int maxq) {
  size_t p = 0;
  p += snprintf(out + p, n - p, "q=");
  int k = 0;
  int more = 0;
  for (struct _task *t = s->head; t && k + more < 1000000; t = t->next) {
    if (k < maxq && p + 32 < n) { p += snprintf(out + p, n - p, "%s%d", k ? "," : "", c20_task_id(t->arg)); ++k; } else ++more;
  }
  if (!k) p += snprintf(out + p, n - p, "-");
  if (more) p += snprintf(out + p, n - p, "+%d", more);
  snprintf(out + p, n - p, " qs=%d busy=%d nt=%d sd=%d", s->queue_size, s->num_threads_busy,
           (int) iwulist_length(&s->threads), (int) s->shutdown);
}
