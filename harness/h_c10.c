// C10/C11 harness: drives the real IWFS_FSM (src/fs/iwfsmfile.c) with the line protocol of `drv c10`.
//
//   open <bpow> <hdrlen> <bmlen> <mmapall> <strict> <lsnr> <notrim> <pat>   new (truncated) file
//   alloc <lenB> <addrspec> <flags>           -> alloc <rc> <addr> <len> <fsize> bm=<bmoff>,<bmlen>
//   dealloc #j [<s> <n>]                      -> dealloc <rc> <addr> <len>      (whole live region j, or n blocks from block s)
//   rawdealloc <addrspec> <lenB>              -> rawdealloc <rc>
//   realloc #j <nlenB> <flags>                -> realloc <rc> <oaddr> <olen> <addr> <len> pat=ok|bad bm=<bmoff>,<bmlen> cp=<from>,<n>,<to>|-
//   rawrealloc <addrspec> <olenB> <nlenB> <flags> -> rawrealloc <rc> <addr> <len> cp=<from>,<n>,<to>|-
//     cp = the arguments of the pool.copy call the allocator made during the call (recorded by a hook on fsm->pool.copy)
//   status <addrspec> <lenB|=> <0|1>          -> status <rc>
//   check                                     -> st bmoff= bmlen= lf= fsize= crz= tree= runs= live=
//   sync | reopen | clear <trim>
//   scan next|prev <hexwords> <off> <lim> | ffs <n> | rev <n> | load <hexbytes>      (unit ops, no file needed)
// addrspec: N | #j | #j+N | #j-N | bm+N | end+N     (#j = j-th live region modulo the number of live regions)
#include "iwfsmfile.c"   // file-static functions and struct fsm (the library object iwfsmfile.o is left out at link time)
#include "hx.h"
#include <sys/stat.h>

#define MAXLIVE 100000
static IWFS_FSM F;
static int opened;
static const char *path;
static struct { int bpow, mmapall, strict, lsnr, notrim, pat; } cfg;
static struct live { off_t addr, len; uint8_t pid; } live[MAXLIVE];
static int nlive, npid;

// ---- recording data listener: replays every reported change into a shadow image
static struct { IWDLSNR l; uint8_t *buf; size_t cap; int bad; } L;
static void l_need(off_t end) {
  if ((size_t) end > L.cap) { size_t n = L.cap ? L.cap : 1 << 16; while (n < (size_t) end) n *= 2;
    L.buf = realloc(L.buf, n); memset(L.buf + L.cap, 0, n - L.cap); L.cap = n; }
}
static iwrc l_onopen(struct iwdlsnr *s, const char *p, int m) { return 0; }
static iwrc l_onclosing(struct iwdlsnr *s) { return 0; }
static iwrc l_onset(struct iwdlsnr *s, off_t off, uint8_t v, off_t len, int fl) { l_need(off + len); memset(L.buf + off, v, len); return 0; }
static iwrc l_oncopy(struct iwdlsnr *s, off_t off, off_t len, off_t noff, int fl) { l_need(off + len); l_need(noff + len); memmove(L.buf + noff, L.buf + off, len); return 0; }
static iwrc l_onwrite(struct iwdlsnr *s, off_t off, const void *b, off_t len, int fl) { l_need(off + len); memcpy(L.buf + off, b, len); return 0; }
static iwrc l_onresize(struct iwdlsnr *s, off_t o, off_t n, int fl, bool *handled) { *handled = false; return 0; }
static iwrc l_onsynced(struct iwdlsnr *s, int fl) { return 0; }

// ---- hook on fsm->pool.copy: which bytes does reallocate move?
static iwrc (*orig_copy)(struct IWFS_EXT *f, off_t off, size_t siz, off_t noff);
static struct { int n; long long off, noff; unsigned long long siz; } CP;
static iwrc hook_copy(struct IWFS_EXT *f, off_t off, size_t siz, off_t noff) {
  CP.n++; CP.off = off; CP.siz = siz; CP.noff = noff;
  return orig_copy(f, off, siz, noff);
}
static void hook_install(void) {
  struct fsm *fsm = F.impl;
  if (fsm && fsm->pool.copy != hook_copy) { orig_copy = fsm->pool.copy; fsm->pool.copy = hook_copy; }
}
static const char* cp_text(void) {
  static char b[96];
  if (!CP.n) return "cp=-";
  if (CP.n > 1) return "cp=multi";
  snprintf(b, sizeof b, "cp=%lld,%llu,%lld", CP.off, CP.siz, CP.noff);
  return b;
}

static const char* rcname(iwrc rc) {
  static char b[64];
  iwrc_strip_errno(&rc);
  switch (rc) {
    case 0: return "0";
    case IWFS_ERROR_NO_FREE_SPACE: return "NO_FREE_SPACE";
    case IWFS_ERROR_RANGE_NOT_ALIGNED: return "RANGE_NOT_ALIGNED";
    case IWFS_ERROR_FSM_SEGMENTATION: return "FSM_SEGMENTATION";
    case IW_ERROR_INVALID_ARGS: return "INVALID_ARGS";
    case IW_ERROR_OUT_OF_BOUNDS: return "OUT_OF_BOUNDS";
    case IW_ERROR_OVERFLOW: return "OVERFLOW";
    case IWFS_ERROR_MAXOFF: return "MAXOFF";
  }
  snprintf(b, sizeof b, "rc%" PRIu64, rc);
  return b;
}

static iwrc do_open(int trunc) {
  IWFS_FSM_OPTS o = { .exfile = { .file = { .path = path, .lock_mode = IWP_WLOCK, .omode = trunc ? IWFS_OTRUNC : IWFS_OWRITE,
                                            .dlsnr = cfg.lsnr ? &L.l : 0 },
                                  .maxoff = 1ULL << 31 },
                      .bpow = cfg.bpow, .mmap_all = cfg.mmapall,
                      .oflags = (cfg.strict ? IWFSM_STRICT : 0) | (cfg.notrim ? IWFSM_NO_TRIM_ON_CLOSE : 0) };
  iwrc rc = iwfs_fsmfile_open(&F, &o);
  if (!rc) hook_install();
  return rc;
}
static unsigned hdrlen_opt, bmlen_opt;

static off_t fsize_now(void) { IWFS_FSM_STATE st; if (F.state(&F, &st)) return -1; return st.exfile.fsize; }

static void pat_fill(struct live *r) {
  if (!cfg.pat || r->len <= 0) return;
  static uint8_t chunk[1 << 16];
  memset(chunk, r->pid, sizeof chunk);
  for (off_t o = 0; o < r->len; o += sizeof chunk) {
    size_t n = r->len - o < (off_t) sizeof chunk ? (size_t) (r->len - o) : sizeof chunk, sp;
    iwrc rc = F.write(&F, r->addr + o, chunk, n, &sp);
    if (rc) { printf("# pattern write failed %s\n", rcname(rc)); return; }
  }
}
// returns -1 when intact, else the first bad byte offset
static off_t pat_check(off_t addr, off_t len, uint8_t pid) {
  if (!cfg.pat) return -1;
  static uint8_t chunk[1 << 16];
  for (off_t o = 0; o < len; o += sizeof chunk) {
    size_t n = len - o < (off_t) sizeof chunk ? (size_t) (len - o) : sizeof chunk, sp = 0;
    iwrc rc = F.read(&F, addr + o, chunk, n, &sp);
    if (rc || sp != n) return o;
    for (size_t i = 0; i < n; ++i) if (chunk[i] != pid) return o + i;
  }
  return -1;
}

static off_t addrspec(const char *w) {
  struct fsm *fsm = F.impl;
  const char *plus = strchr(w, '+'), *minus = strchr(w, '-');
  off_t add = plus ? strtoll(plus + 1, 0, 10) : minus ? -strtoll(minus + 1, 0, 10) : 0, base;
  if (w[0] == '#') base = nlive ? live[strtoull(w + 1, 0, 10) % nlive].addr : 0;
  else if (!strncmp(w, "bm", 2)) base = fsm->bmoff;
  else if (!strncmp(w, "end", 3)) base = (off_t) ((fsm->bmlen * 8) << fsm->bpow);
  else { base = strtoll(w, 0, 10); add = 0; }
  return base + add;
}

static int cmp_off(const void *a, const void *b) { const uint64_t *x = a, *y = b; return x[0] < y[0] ? -1 : x[0] > y[0]; }

static void print_state(void) {
  struct fsm *fsm = F.impl;
  printf("st bmoff=%" PRIu64 " bmlen=%" PRIu64 " lf=%" PRIu64 ",%" PRIu64 " fsize=%lld crz=%u,%" PRIu64 ",%" PRIu64 " tree=",
         fsm->bmoff, fsm->bmlen, fsm->lfbkoff, fsm->lfbklen, (long long) fsize_now(), fsm->crznum, fsm->crzsum, fsm->crzvar);
  int n = 0;
  for (struct iwavl_node *nd = iwavl_first_in_order(fsm->root); nd && n < 20000; nd = iwavl_next_in_order(nd), ++n)
    printf("%s%u:%u", n ? "," : "", BKEY(nd).off, BKEY(nd).len);
  if (!n) printf("-");
  if ((uint32_t) n != fsm->fsmnum) printf("!fsmnum=%u", fsm->fsmnum);
  printf(" runs=");
  uint64_t *bm; n = 0;
  if (_fsm_bmptr(fsm, &bm)) printf("?");
  else {
    const uint8_t *b = (const uint8_t*) bm; uint64_t nb = fsm->bmlen * 8, start = 0; int in = 0;
    for (uint64_t i = 0; i <= nb && n < 20000; ++i) {
      int set = i == nb ? 1 : (b[i >> 3] >> (i & 7)) & 1;
      if (!set && !in) { in = 1; start = i; }
      else if (set && in) { in = 0; printf("%s%" PRIu64 ":%" PRIu64, n ? "," : "", start, i - start); ++n; }
    }
    if (!n) printf("-");
    if (cfg.lsnr) {
      // the listener saw every change of the bitmap area
      if (L.cap < fsm->bmoff + fsm->bmlen || memcmp(L.buf + fsm->bmoff, b, fsm->bmlen)) printf(" lsnr=bad");
    }
  }
  int bad = -1; off_t at = 0;
  for (int i = 0; i < nlive && bad < 0; ++i) { at = pat_check(live[i].addr, live[i].len, live[i].pid); if (at >= 0) bad = i; }
  if (bad < 0) printf(" live=ok\n"); else printf(" live=bad:%lld+%lld\n", (long long) live[bad].addr, (long long) at);
}

static void unit_load(const char *hex) {
  size_t l; uint8_t *b = hx_parse(hex, &l);
  struct fsm *fsm = calloc(1, sizeof *fsm);
  _fsm_load_fsm_lw(fsm, b, l);
  uint64_t (*v)[2] = malloc(sizeof(uint64_t[2]) * (fsm->fsmnum + 1)); int n = 0;
  for (struct iwavl_node *nd = iwavl_first_in_order(fsm->root); nd; nd = iwavl_next_in_order(nd), ++n) { v[n][0] = BKEY(nd).off; v[n][1] = BKEY(nd).len; }
  qsort(v, n, sizeof v[0], cmp_off);
  printf("load ");
  for (int i = 0; i < n; ++i) printf("%s%" PRIu64 ":%" PRIu64, i ? "," : "", v[i][0], v[i][1]);
  if (!n) printf("-");
  printf("\n");
  _fsm_node_destroy(fsm->root); free(fsm); free(v); free(b);
}

int main(int argc, char **argv) {
  setvbuf(stdout, 0, _IOLBF, 0);
  path = argv[1];
  char *line = malloc(HX_MAXLINE), *w[16];
  L.l = (IWDLSNR) { l_onopen, l_onclosing, l_onset, l_oncopy, l_onwrite, l_onresize, l_onsynced };
  iwfs_fsmfile_init();
  while (fgets(line, HX_MAXLINE, stdin)) {
    int n = hx_words(line, w, 16);
    if (!n) { printf("bad-op\n"); continue; }
    if (!strcmp(w[0], "open") && n == 9) {
      if (opened) { F.close(&F); opened = 0; }
      cfg.bpow = atoi(w[1]); hdrlen_opt = atoi(w[2]); bmlen_opt = atoi(w[3]); cfg.mmapall = atoi(w[4]); cfg.strict = atoi(w[5]);
      cfg.lsnr = atoi(w[6]); cfg.notrim = atoi(w[7]); cfg.pat = atoi(w[8]);
      nlive = 0; npid = 0; if (L.buf) memset(L.buf, 0, L.cap);
      IWFS_FSM_OPTS o = { .exfile = { .file = { .path = path, .lock_mode = IWP_WLOCK, .omode = IWFS_OTRUNC, .dlsnr = cfg.lsnr ? &L.l : 0 },
                                      .maxoff = 1ULL << 31 },
                          .bpow = cfg.bpow, .hdrlen = hdrlen_opt, .bmlen = bmlen_opt, .mmap_all = cfg.mmapall,
                          .oflags = (cfg.strict ? IWFSM_STRICT : 0) | (cfg.notrim ? IWFSM_NO_TRIM_ON_CLOSE : 0) };
      iwrc rc = iwfs_fsmfile_open(&F, &o);
      opened = !rc;
      if (opened) hook_install();
      printf("open %s\n", rcname(rc));
    } else if (!strcmp(w[0], "scan") && n == 5) {
      size_t l; uint8_t *b = hx_parse(w[2], &l);
      uint64_t *words = calloc(l / 8 + 2, 8); memcpy(words, b, l);
      int found = 0; uint64_t r;
      if (!strcmp(w[1], "next")) r = _fsm_find_next_set_bit(words, strtoull(w[3], 0, 10), strtoull(w[4], 0, 10), &found);
      else r = _fsm_find_prev_set_bit(words, strtoull(w[3], 0, 10), strtoull(w[4], 0, 10), &found);
      printf("scan %d %" PRIu64 "\n", found, found ? r : 0);
      free(words); free(b);
    } else if (!strcmp(w[0], "ffs") && n == 2) { printf("ffs %u\n", iwbits_find_first_sbit64(strtoull(w[1], 0, 10)));
    } else if (!strcmp(w[0], "rev") && n == 2) { printf("rev %" PRIu64 "\n", iwbits_reverse_64(strtoull(w[1], 0, 10)));
    } else if (!strcmp(w[0], "load") && n == 2) { unit_load(w[1]);
    } else if (!opened) { printf("bad-op\n");
    } else if (!strcmp(w[0], "alloc") && n == 4) {
      off_t addr = addrspec(w[2]), len = 0;
      iwrc rc = F.allocate(&F, strtoll(w[1], 0, 10), &addr, &len, (iwfs_fsm_aflags) atoi(w[3]));
      struct fsm *fsm = F.impl;
      if (rc) printf("alloc %s 0 0 %lld bm=%" PRIu64 ",%" PRIu64 "\n", rcname(rc), (long long) fsize_now(), fsm->bmoff, fsm->bmlen);
      else {
        printf("alloc 0 %lld %lld %lld bm=%" PRIu64 ",%" PRIu64 "\n", (long long) addr, (long long) len, (long long) fsize_now(), fsm->bmoff, fsm->bmlen);
        if (nlive < MAXLIVE) { live[nlive] = (struct live) { addr, len, (uint8_t) (npid++ % 251 + 1) }; pat_fill(&live[nlive]); nlive++; }
      }
    } else if (!strcmp(w[0], "dealloc") && (n == 2 || n == 4) && w[1][0] == '#') {
      if (!nlive) { printf("dealloc none\n"); continue; }
      int i = (int) (strtoull(w[1] + 1, 0, 10) % nlive);
      struct fsm *fsm = F.impl;
      struct live r = live[i];
      off_t bs = 1LL << fsm->bpow, lblk = r.len / bs, s = 0, cnt = lblk;
      if (n == 4) { s = strtoll(w[2], 0, 10) % lblk; off_t nn = strtoll(w[3], 0, 10); if (nn < 1) nn = 1; cnt = 1 + (nn - 1) % (lblk - s); }
      off_t a = r.addr + s * bs, l = cnt * bs;
      iwrc rc = F.deallocate(&F, a, l);
      printf("dealloc %s %lld %lld\n", rcname(rc), (long long) a, (long long) l);
      if (!rc) {
        if (s + cnt < lblk && nlive < MAXLIVE) live[nlive++] = (struct live) { a + l, r.len - (s + cnt) * bs, r.pid };
        if (s > 0) live[i].len = s * bs;
        else { memmove(&live[i], &live[i + 1], sizeof(live[0]) * (nlive - i - 1)); nlive--; }
      }
    } else if (!strcmp(w[0], "rawdealloc") && n == 3) {
      iwrc rc = F.deallocate(&F, addrspec(w[1]), strtoll(w[2], 0, 10));
      printf("rawdealloc %s\n", rcname(rc));
    } else if (!strcmp(w[0], "realloc") && n == 4 && w[1][0] == '#') {
      if (!nlive) { printf("realloc none\n"); continue; }
      int i = (int) (strtoull(w[1] + 1, 0, 10) % nlive);
      struct live r = live[i];
      off_t addr = r.addr, len = r.len;
      // without pattern bytes the old region may lie past EOF; make it file-backed first (copying from past EOF is C12's subject)
      if (!cfg.pat) ((struct fsm*) F.impl)->pool.ensure_size(&((struct fsm*) F.impl)->pool, r.addr + r.len);
      CP.n = 0;
      iwrc rc = F.reallocate(&F, strtoll(w[2], 0, 10), &addr, &len, (iwfs_fsm_aflags) atoi(w[3]));
      struct fsm *fsm = F.impl;
      char cpt[96]; strcpy(cpt, cp_text());
      if (rc) printf("realloc %s %lld %lld %lld %lld pat=ok bm=%" PRIu64 ",%" PRIu64 " %s\n", rcname(rc), (long long) r.addr, (long long) r.len, (long long) r.addr, (long long) r.len, fsm->bmoff, fsm->bmlen, cpt);
      else {
        off_t keep = len < r.len ? len : r.len;
        // a region allocated without SOLID need not be file-backed yet: extend the file before reading the bytes back
        if (cfg.pat && len > 0) ((struct fsm*) F.impl)->pool.ensure_size(&((struct fsm*) F.impl)->pool, addr + len);
        off_t bad = pat_check(addr, keep, r.pid);
        printf("realloc 0 %lld %lld %lld %lld pat=%s bm=%" PRIu64 ",%" PRIu64 " %s\n", (long long) r.addr, (long long) r.len, (long long) addr, (long long) len, bad < 0 ? "ok" : "bad", fsm->bmoff, fsm->bmlen, cpt);
        if (len == 0) { memmove(&live[i], &live[i + 1], sizeof(live[0]) * (nlive - i - 1)); nlive--; }
        else { live[i].addr = addr; live[i].len = len; pat_fill(&live[i]); }
      }
    } else if (!strcmp(w[0], "rawrealloc") && n == 5) {
      off_t addr = addrspec(w[1]), len = strtoll(w[2], 0, 10);
      CP.n = 0;
      iwrc rc = F.reallocate(&F, strtoll(w[3], 0, 10), &addr, &len, (iwfs_fsm_aflags) atoi(w[4]));
      if (rc) printf("rawrealloc %s 0 0 %s\n", rcname(rc), cp_text()); else printf("rawrealloc 0 %lld %lld %s\n", (long long) addr, (long long) len, cp_text());
    } else if (!strcmp(w[0], "status") && n == 4) {
      off_t addr = addrspec(w[1]), len;
      if (!strcmp(w[2], "=")) len = (w[1][0] == '#' && nlive) ? live[strtoull(w[1] + 1, 0, 10) % nlive].len : 0;
      else len = strtoll(w[2], 0, 10);
      printf("status %s\n", rcname(F.check_allocation_status(&F, addr, len, atoi(w[3]) != 0)));
    } else if (!strcmp(w[0], "check") && n == 1) { print_state();
    } else if (!strcmp(w[0], "sync") && n == 1) { printf("sync %s\n", rcname(F.sync(&F, IWFS_SYNCDEFAULT)));
    } else if (!strcmp(w[0], "reopen") && n == 1) {
      iwrc rc = F.close(&F); opened = 0;
      struct stat sb; long long sz = stat(path, &sb) ? -1 : (long long) sb.st_size;
      if (!rc) { rc = do_open(0); opened = !rc; }
      printf("reopen %s %lld\n", rcname(rc), sz);
    } else if (!strcmp(w[0], "clear") && n == 2) {
      iwrc rc = F.clear(&F, atoi(w[1]) ? IWFSM_CLEAR_TRIM : 0);
      nlive = 0;
      printf("clear %s\n", rcname(rc));
    } else printf("bad-op\n");
  }
  fflush(stdout);
  if (opened) F.close(&F);
  return 0;
}
