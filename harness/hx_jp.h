// Helpers shared by the JSON Patch (C15) and JSON Merge Patch (C16) harnesses.
#pragma once
#include "hx_json.h"
#include "iwxstr.h"
#include <signal.h>
#include <unistd.h>

// watchdog: one op line may not take longer than HXP_OP_SECONDS (a corrupted node list makes the code loop forever)
#define HXP_OP_SECONDS 3
static void hxp_on_alarm(int sig) {
  static const char msg[] = "\nHARNESS-WATCHDOG: operation did not terminate\n";
  (void) sig;
  if (write(2, msg, sizeof(msg) - 1) < 0) {}
  _exit(70);
}
static void hxp_watchdog_init(void) { signal(SIGALRM, hxp_on_alarm); }

#define HXJ_BUDGET 4000

static const char* hxp_rc(iwrc rc) {
  static char buf[64];
  iwrc_strip_errno(&rc);
  switch (rc) {
    case 0: return "ok";
    case IW_ERROR_INVALID_ARGS: return "invalid-args";
    case IW_ERROR_NOT_IMPLEMENTED: return "not-implemented";
    case IW_ERROR_ALLOC: return "alloc";
    case JBL_ERROR_INVALID_BUFFER: return "invalid-buffer";
    case JBL_ERROR_CREATION: return "creation";
    case JBL_ERROR_INVALID: return "invalid";
    case JBL_ERROR_PARSE_JSON: return "parse-json";
    case JBL_ERROR_PARSE_UNQUOTED_STRING: return "parse-unquoted";
    case JBL_ERROR_PARSE_INVALID_CODEPOINT: return "parse-codepoint";
    case JBL_ERROR_PARSE_INVALID_UTF8: return "parse-utf8";
    case JBL_ERROR_JSON_POINTER: return "json-pointer";
    case JBL_ERROR_PATH_NOTFOUND: return "path-notfound";
    case JBL_ERROR_PATCH_INVALID: return "patch-invalid";
    case JBL_ERROR_PATCH_INVALID_OP: return "patch-invalid-op";
    case JBL_ERROR_PATCH_NOVALUE: return "patch-novalue";
    case JBL_ERROR_PATCH_TARGET_INVALID: return "patch-target-invalid";
    case JBL_ERROR_PATCH_INVALID_VALUE: return "patch-invalid-value";
    case JBL_ERROR_PATCH_INVALID_ARRAY_INDEX: return "patch-invalid-array-index";
    case JBL_ERROR_NOT_AN_OBJECT: return "not-an-object";
    case JBL_ERROR_TYPE_MISMATCHED: return "type-mismatched";
    case JBL_ERROR_PATCH_TEST_FAILED: return "patch-test-failed";
    case JBL_ERROR_MAX_NESTING_LEVEL_EXCEEDED: return "max-nesting";
  }
  snprintf(buf, sizeof(buf), "rc%" PRIu64, (uint64_t) rc);
  return buf;
}

// find the `|` separator among the words; returns its index or -1
static int hxp_sep(char **w, int n) {
  for (int i = 0; i < n; ++i) if (w[i][0] == '|' && !w[i][1]) return i;
  return -1;
}

// 1 when every array child carries its position in klidx and every object child strlen(key); nodes visited <= budget
static int hxp_klidx_ok(const struct jbl_node *nd, int *budget) {
  if (!nd || nd->type < JBV_OBJECT) return 1;
  int i = 0;
  for (const struct jbl_node *c = nd->child; c; c = c->next, ++i) {
    if (--(*budget) < 0) return 0;
    if (nd->type == JBV_ARRAY) { if (c->klidx != i) return 0; }
    else if (!c->key || c->klidx != (int) strlen(c->key)) return 0;
    if (!hxp_klidx_ok(c, budget)) return 0;
  }
  return 1;
}

static void hxp_dump_node(const struct jbl_node *nd) {
  int budget = HXJ_BUDGET;
  if (nd && nd->type == JBV_NONE) fputs("NONE", stdout); else hxj_dump(stdout, nd, &budget);
}

// Dump a binary document: containers through jbl_to_node. A holder whose root is no longer a container (root removed,
// or replaced by a scalar: the holder then points into freed/stack memory; jbl documents are containers by
// construction) is only reported as NOCONTAINER.
static void hxp_dump_jbl(struct jbl *jbl) {
  jbl_type_t t = jbl_type(jbl);
  void *buf = 0; size_t sz = 0;
  if ((t == JBV_OBJECT || t == JBV_ARRAY) && !jbl_as_buf(jbl, &buf, &sz) && buf) {
    struct iwpool *pool = iwpool_create(1024);
    struct jbl_node *nd = 0;
    iwrc rc = jbl_to_node(jbl, &nd, true, pool);
    if (rc) printf("to-node-%s", hxp_rc(rc)); else hxp_dump_node(nd);
    iwpool_destroy(pool);
  } else fputs("NOCONTAINER", stdout);
}

// snapshot of the binary bytes of a document (malloc'ed copy)
static uint8_t* hxp_bytes(struct jbl *jbl, size_t *sz) {
  void *buf = 0; *sz = 0;
  if (jbl_as_buf(jbl, &buf, sz) || !buf) { *sz = 0; return 0; }
  uint8_t *c = malloc(*sz + 1);
  memcpy(c, buf, *sz);
  return c;
}

static int hxp_same_bytes(struct jbl *jbl, const uint8_t *before, size_t bsz) {
  void *buf = 0; size_t sz = 0;
  if (jbl_as_buf(jbl, &buf, &sz) || !buf) return bsz == 0;
  return sz == bsz && !memcmp(buf, before, sz);
}

// ---- byte-level ops (bpatch / bseq / bmerge / bmseq): the document goes in and comes out as binn bytes ----

// holder over a private copy of the given bytes (freed by the holder: keep_on_destroy = false, so the buffer is released
// by binn_free at the moment the entry point swaps the new document in; ASan sees any later use)
static struct jbl* hxp_holder(const char *hex, iwrc *rcp) {
  size_t sz; uint8_t *buf = hx_parse(hex, &sz);
  struct jbl *jbl = 0;
  *rcp = jbl_from_buf_keep(&jbl, buf, sz, false);
  if (*rcp) { free(buf); return 0; }
  return jbl;
}

// the holder as bytes (documents) or `scalar <wire>` (value structs: root replaced by a scalar / removed)
static void hxp_dump_holder(struct jbl *jbl) {
  jbl_type_t t = jbl_type(jbl);
  if (t == JBV_OBJECT || t == JBV_ARRAY) {
    void *buf = 0; size_t sz = 0;
    if (jbl_as_buf(jbl, &buf, &sz) || !buf) fputs("nobuf", stdout);
    else if (sz > (1U << 20)) fputs("toolarge", stdout);
    else hx_print(stdout, buf, sz);
  } else {
    struct iwpool *pool = iwpool_create(256);
    struct jbl_node *nd = 0;
    iwrc rc = jbl_to_node(jbl, &nd, true, pool);
    fputs("scalar ", stdout);
    if (rc) printf("to-node-%s", hxp_rc(rc)); else hxp_dump_node(nd);
    iwpool_destroy(pool);
  }
}
