// C20 harness, free-running mode (included by h_c20.c)
static void free_snapshot(char *buf, size_t n) {
  if (exec_kind == 1) c20_stw_snapshot(g_stw, buf, n);
  else if (exec_kind == 2) c20_tp_snapshot(g_tp, buf, n);
  else buf[0] = 0;
}
static void do_stress(int n, char **w) { printf("stress-unimplemented\n"); }
