// C20 harness, free-running mode (included by h_c20.c): real scheduling, every pthread call on the
// executor's mutex/conditions and every task/callback/API event is appended to one totally ordered trace.
#define FREE_MAXQ 4

static void free_snapshot(char *buf, size_t n) {
  if (exec_kind == 1) c20_stw_snapshot(g_stw, buf, n, FREE_MAXQ);
  else if (exec_kind == 2) c20_tp_snapshot(g_tp, buf, n, FREE_MAXQ);
  else buf[0] = 0;
}

static volatile int st_active_calls;   // submitters inside an API call
static volatile int st_freeing;        // the shutdown caller is about to let the executor be freed
static volatile int st_calls_done, st_subs_done;

struct sub {
  cth rec;
  int idx, ntasks, kind;
  unsigned seed;
};

static unsigned st_rand(unsigned *s) { *s = *s * 1103515245u + 12345u; return (*s >> 16) & 0x7fff; }

static void* sub_main(void *op) {
  struct sub *s = op;
  me = &s->rec;
  for (int j = 0; j < s->ntasks; ++j) {
    __atomic_add_fetch(&st_active_calls, 1, __ATOMIC_SEQ_CST);
    if (__atomic_load_n(&st_freeing, __ATOMIC_SEQ_CST)) {
      __atomic_sub_fetch(&st_active_calls, 1, __ATOMIC_SEQ_CST);
      break;
    }
    unsigned x = st_rand(&s->seed) % 64;
    int cmd = CMD_SCHED;
    if (s->kind == 1 && x == 0) cmd = CMD_ONLY; else if (s->kind == 1 && x < 5) cmd = CMD_EMPTY;
    int id = (s->idx + 1) * 100000 + j;
    bool flag = false;
    tr("%d call %s %d", s->idx, cmd == CMD_SCHED ? "sched" : cmd == CMD_ONLY ? "only" : "empty", id);
    iwrc rc = do_call(cmd, id, 0, &flag);
    tr("%d ret %s %d", s->idx, rcname(rc), (int) flag);
    __atomic_sub_fetch(&st_active_calls, 1, __ATOMIC_SEQ_CST);
    __atomic_add_fetch(&st_calls_done, 1, __ATOMIC_SEQ_CST);
    if (rc == IW_ERROR_INVALID_STATE) break;
    unsigned y = st_rand(&s->seed) % 16;
    if (y == 0) sched_yield(); else if (y == 1) usleep(50);
  }
  __atomic_add_fetch(&st_subs_done, 1, __ATOMIC_SEQ_CST);
  return 0;
}

// called by the shutdown thread between joining the workers and freeing the executor (from __wrap_pthread_join):
// a legal delay of that thread which keeps submitters that are still inside a call off freed memory (finding F37)
static void st_before_free(void) {
  __atomic_store_n(&st_freeing, 1, __ATOMIC_SEQ_CST);
  for (int k = 0; k < 2000000 && __atomic_load_n(&st_active_calls, __ATOMIC_SEQ_CST); ++k) sched_yield();
}

// stress <stw|tp> <a> <b> <c> <nsub> <ntasks> <spin> <sdmode> <seed>
//   sdmode 0: waiting shutdown after the submitters are done   1: non-waiting, after
//          2: waiting, while they submit                        3: non-waiting, while they submit
static void do_stress(int n, char **w) {
  if (n != 10) { printf("bad-op\n"); return; }
  int kind = !strcmp(w[1], "stw") ? 1 : 2;
  int nsub = atoi(w[5]), ntasks = atoi(w[6]), sdmode = atoi(w[8]);
  unsigned seed = (unsigned) strtoul(w[9], 0, 10);
  if (nsub < 1) nsub = 1;
  if (nsub > 8) nsub = 8;
  ctl_active = 0;
  free_trace = 1;
  task_spin = atoi(w[7]);
  trcap = 96u << 20;
  if (!trbuf) trbuf = malloc(trcap);
  trlen = 0;
  tr_overflow = 0;
  st_active_calls = 0;
  st_freeing = 0;
  st_calls_done = 0;
  st_subs_done = 0;
  nworkers = 0;
  if (start_exec(kind, atoi(w[2]), atoi(w[3]), atoi(w[4]))) { printf("start-failed\n"); return; }
  struct sub *subs = calloc(nsub, sizeof(*subs));
  pthread_t th[8];
  for (int i = 0; i < nsub; ++i) {
    subs[i].idx = i;
    subs[i].rec.tr_id = i;
    subs[i].rec.kind = K_CLIENT;
    subs[i].ntasks = ntasks;
    subs[i].kind = kind;
    subs[i].seed = seed * 31 + i;
    __real_pthread_create(&th[i], 0, sub_main, &subs[i]);
  }
  cth mainrec = { .kind = K_CLIENT, .tr_id = nsub };
  if (sdmode >= 2) {
    int goal = (int) (seed % (unsigned) (nsub * ntasks / 2 + 1));
    for (int k = 0; k < 4000000 && __atomic_load_n(&st_calls_done, __ATOMIC_SEQ_CST) < goal && __atomic_load_n(&st_subs_done, __ATOMIC_SEQ_CST) < nsub; ++k) sched_yield();
  }
  else for (int i = 0; i < nsub; ++i) __real_pthread_join(th[i], 0);
  me = &mainrec;
  bool flag = false;
  tr("%d call shutdown %d", nsub, (sdmode & 1) ? 0 : 1);
  iwrc rc = do_call(CMD_SHUTDOWN, 0, (sdmode & 1) ? 0 : 1, &flag);
  tr("%d ret %s 0", nsub, rcname(rc));
  me = 0;
  if (sdmode >= 2) for (int i = 0; i < nsub; ++i) __real_pthread_join(th[i], 0);
  free_trace = 0;
  int nw = nworkers;
  printf("stress-begin workers=%d freed=%d overflow=%d bytes=%zu\n", nw, (int) exec_freed, (int) tr_overflow, trlen);
  fwrite(trbuf, 1, trlen, stdout);
  printf("stress-end\n");
  free(subs);
  for (int i = 0; i < nw; ++i) workers[i] = 0;   // records of exited workers are left to the process end
  nworkers = 0;
  exec_kind = 0;
  g_stw = 0;
  g_tp = 0;
  exec_mtx = 0;
  cond_w = cond_q = 0;
  exec_freed = 0;
  intercept_create = 0;
}

// ---- probe: a task that calls shutdown on its own executor must get an error back and must not wedge the worker
static sem_t selfsd_done, selfsd_a_done;
static volatile int selfsd_b_ran;
static volatile iwrc selfsd_rc;
static void selfsd_fn(void *arg) {
  if (exec_kind == 1) { struct iwstw *p = g_stw; selfsd_rc = iwstw_shutdown(&p, true); }
  else { struct iwtp *p = g_tp; selfsd_rc = iwtp_shutdown(&p, true); }
  sem_post(&selfsd_a_done);
}
static void selfsd_b(void *arg) { selfsd_b_ran = 1; }
static void* selfsd_closer(void *op) {
  while (sem_wait(&selfsd_a_done) && errno == EINTR);
  if (exec_kind == 1) { struct iwstw *p = g_stw; iwstw_shutdown(&p, true); }
  else { struct iwtp *p = g_tp; iwtp_shutdown(&p, true); }
  sem_post(&selfsd_done);
  return 0;
}
static void do_selfsd(int n, char **w) {
  if (n != 2) { printf("bad-op\n"); return; }
  int kind = !strcmp(w[1], "stw") ? 1 : 2;
  ctl_active = 0;
  free_trace = 0;
  intercept_create = 0;
  sem_init(&selfsd_done, 0, 0);
  sem_init(&selfsd_a_done, 0, 0);
  selfsd_b_ran = 0;
  selfsd_rc = 0;
  if (kind == 1) { if (iwstw_start("c20", 0, false, &g_stw) || !g_stw) { printf("start-failed\n"); return; } }
  else if (iwtp_start("c20-", 1, 0, &g_tp)) { printf("start-failed\n"); return; }
  exec_kind = kind;
  if (kind == 1) { iwstw_schedule(g_stw, selfsd_fn, 0); iwstw_schedule(g_stw, selfsd_b, 0); }
  else { iwtp_schedule(g_tp, selfsd_fn, 0); iwtp_schedule(g_tp, selfsd_b, 0); }
  pthread_t th;
  __real_pthread_create(&th, 0, selfsd_closer, 0);
  struct timespec ts;
  clock_gettime(CLOCK_REALTIME, &ts);
  ts.tv_sec += 3;
  int r;
  while ((r = sem_timedwait(&selfsd_done, &ts)) && errno == EINTR);
  if (r) printf("selfsd %s hang\n", w[1]);      // the worker and the closer stay wedged; the process goes on
  else {
    __real_pthread_join(th, 0);
    printf("selfsd %s rc=%s b-ran=%d done\n", w[1], selfsd_rc == IW_ERROR_ASSERTION ? "assertion" : selfsd_rc ? "other" : "ok", (int) selfsd_b_ran);
  }
  exec_kind = 0;
  g_stw = 0;
  g_tp = 0;
}
