// Wire form of JSON documents (see lean/IwModel/Model/JVal.lean) <-> struct jbl_node trees.
#pragma once
#include "hx.h"
#include "iwjson.h"
#include "iwpool.h"

// Build a tree from wire tokens w[*pos..]; nodes and strings live in `pool`. Returns 0 on malformed input.
static struct jbl_node* hxj_build(char **w, int n, int *pos, struct iwpool *pool, const char *key) {
  if (*pos >= n) return 0;
  char *t = w[(*pos)++];
  struct jbl_node *nd = iwpool_calloc(sizeof(*nd), pool);
  if (key) { nd->key = key; nd->klidx = (int) strlen(key); }
  switch (t[0]) {
    case 'n': nd->type = JBV_NULL; break;
    case 't': nd->type = JBV_BOOL; nd->vbool = true; break;
    case 'f': nd->type = JBV_BOOL; nd->vbool = false; break;
    case 'i': nd->type = JBV_I64; nd->vi64 = strtoll(t + 1, 0, 10); break;
    case 'd': { uint64_t b = strtoull(t + 1, 0, 16); nd->type = JBV_F64; memcpy(&nd->vf64, &b, 8); break; }
    case 's': {
      size_t l; uint8_t *b = hx_parse(t + 1, &l);
      char *p = iwpool_alloc(l + 1, pool); memcpy(p, b, l); p[l] = 0; free(b);
      nd->type = JBV_STR; nd->vptr = p; nd->vsize = (int) l; break;
    }
    case 'a': {
      int cnt = atoi(t + 1); nd->type = JBV_ARRAY;
      for (int i = 0; i < cnt; ++i) {
        struct jbl_node *c = hxj_build(w, n, pos, pool, 0);
        if (!c) return 0;
        jbn_add_item(nd, c);
      }
      break;
    }
    case 'o': {
      int cnt = atoi(t + 1); nd->type = JBV_OBJECT;
      for (int i = 0; i < cnt; ++i) {
        if (*pos >= n || w[*pos][0] != 'k') return 0;
        size_t l; uint8_t *b = hx_parse(w[(*pos)++] + 1, &l);
        char *k = iwpool_alloc(l + 1, pool); memcpy(k, b, l); k[l] = 0; free(b);
        struct jbl_node *c = hxj_build(w, n, pos, pool, k);
        if (!c) return 0;
        jbn_add_item(nd, c);
      }
      break;
    }
    default: return 0;
  }
  return nd;
}

// Dump a tree in wire form. `budget` bounds the number of nodes visited (cyclic/corrupt trees).
static int hxj_dump(FILE *f, const struct jbl_node *nd, int *budget) {
  if (!nd) { fputs("NULL", f); return 0; }
  if (--(*budget) < 0) { fputs(" BUDGET", f); return -1; }
  switch (nd->type) {
    case JBV_NULL: fputs("n", f); break;
    case JBV_BOOL: fputs(nd->vbool ? "t" : "f", f); break;
    case JBV_I64: fprintf(f, "i%" PRId64, nd->vi64); break;
    case JBV_F64: { uint64_t b; memcpy(&b, &nd->vf64, 8); fprintf(f, "d%016" PRIx64, b); break; }
    case JBV_STR: fputc('s', f); hx_print(f, nd->vptr, nd->vptr ? (size_t) nd->vsize : 0); break;
    case JBV_ARRAY:
    case JBV_OBJECT: {
      int cnt = 0;
      for (const struct jbl_node *c = nd->child; c && cnt < 1000000; c = c->next) cnt++;
      fprintf(f, "%c%d", nd->type == JBV_ARRAY ? 'a' : 'o', cnt);
      int i = 0;
      for (const struct jbl_node *c = nd->child; c && i < cnt; c = c->next, ++i) {
        fputc(' ', f);
        if (nd->type == JBV_OBJECT) { fputc('k', f); hx_print(f, c->key, c->key ? strlen(c->key) : 0); fputc(' ', f); }
        if (hxj_dump(f, c, budget) < 0) return -1;
      }
      break;
    }
    default: fprintf(f, "?type%d", (int) nd->type); break;
  }
  return 0;
}
