// C16 harness: JSON Merge Patch through every public entry point, one result line per op line.
//
//   merge <mode> <target wire tokens> | <patch wire tokens>
//     node   : jbn_merge_patch(root, patch, pool)                 pool-allocated tree
//     heap   : jbn_merge_patch(root, patch, 0)                    root is a heap clone (jbn_clone(.., 0)), freed afterwards
//     njson  : jbn_merge_patch_from_json(root, text(patch), pool)
//     auto   : jbn_patch_auto(root, patch, pool)
//     jbl    : jbl_merge_patch(jbl, text(patch))                  binary form
//     jbljbl : jbl_merge_patch_jbl(jbl, jbl(patch))
//   mergepath <pool|heap|reg> <pointer hex> <target wire tokens> | <value wire tokens or `-` for no value>
//              jbn_merge_patch_path(root, pointer, value, pool or 0)   (heap: as src/json/iwjsreg.c calls it)
//              reg: iwjsreg_merge(registry whose root is a heap clone of the target, pointer, value)
//   mergetext <njson|jbl> <patch text hex> <target wire tokens>
//              the text entry points with a text that is not JSON: answer <ok|error> <doc> kl=/same=
//   bmerge <jbl|jbljbl> <binn bytes hex> | <patch wire tokens (jbl) or patch binn bytes hex (jbljbl)>
//              the binary entry points on holders built over the given BYTES; answer: <rc> <bytes afterwards | scalar <wire>>
//   bmseq <binn bytes hex> | <patch> | <patch> ...   jbl_merge_patch repeatedly on one holder: <rc>,<rc>,... <bytes afterwards>
//   answer, tree modes:   <rc> <doc wire> kl=<0|1>
//   answer, binary modes: <rc> <doc wire | NOCONTAINER> same=<0|1>
#include "iwjsreg.c"   // white-box: the registry root is replaced by the generated target (iwjsreg.o is left out at link time)
#include "hx_jp.h"

static iwrc free_visitor(int lvl, struct jbl_node *n) {
  (void) lvl;
  if (n->key) free((void*) n->key);
  if (n->type == JBV_STR) free((void*) n->vptr);
  free(n);
  return 0;
}

static void tree_answer(iwrc rc, struct jbl_node *doc) {
  int budget = HXJ_BUDGET;
  int kl = hxp_klidx_ok(doc, &budget);
  printf("%s ", hxp_rc(rc)); hxp_dump_node(doc); printf(" kl=%d\n", kl);
}

static void byte_ops(char **w, int n) {
  int seq = !strcmp(w[0], "bmseq");
  int hexpos = seq ? 1 : 2;
  const char *mode = seq ? "jbl" : w[1];
  if (n < hexpos + 3 || strcmp(w[hexpos + 1], "|") || (strcmp(mode, "jbl") && strcmp(mode, "jbljbl"))) { printf("bad-op\n"); return; }
  iwrc rc = 0;
  struct jbl *jbl = hxp_holder(w[hexpos], &rc);
  if (!jbl) { printf("from-buf-%s\n", hxp_rc(rc)); return; }
  struct iwpool *pool = iwpool_create(4096);
  int pos = hexpos + 2, first = 1, bad = 0;
  if (!strcmp(mode, "jbljbl")) {
    struct jbl *pj = (n == pos + 1) ? hxp_holder(w[pos], &rc) : 0;
    if (!pj) bad = 1;
    else {
      rc = jbl_merge_patch_jbl(jbl, pj);
      printf("%s", hxp_rc(rc));
      jbl_destroy(&pj);
    }
  } else {
    while (pos < n && !bad) {
      int end = pos;
      while (end < n && strcmp(w[end], "|")) end++;
      int pp = pos;
      struct jbl_node *patch = hxj_build(w, end, &pp, pool, 0);
      if (!patch || pp != end || (!seq && end != n)) { bad = 1; break; }
      char *text = 0;
      rc = jbn_as_json_alloc(patch, 0, &text);
      if (rc) { bad = 1; break; }
      rc = jbl_merge_patch(jbl, text);
      free(text);
      printf("%s%s", first ? "" : ",", hxp_rc(rc));
      first = 0;
      pos = end + 1;
    }
  }
  if (bad) printf("%sbad-op\n", first ? "" : " ");
  else { fputc(' ', stdout); hxp_dump_holder(jbl); fputc('\n', stdout); }
  jbl_destroy(&jbl);
  iwpool_destroy(pool);
}

int main(int argc, char **argv) {
  setvbuf(stdout, 0, _IOLBF, 0);
  hxp_watchdog_init();
  char *line = malloc(HX_MAXLINE);
  char **w = malloc(sizeof(char*) * 65536);
  while (alarm(0), fgets(line, HX_MAXLINE, stdin)) {
    alarm(HXP_OP_SECONDS);
    int n = hx_words(line, w, 65536);
    if (n >= 1 && (!strcmp(w[0], "bmerge") || !strcmp(w[0], "bmseq"))) { byte_ops(w, n); continue; }
    if (n >= 4 && !strcmp(w[0], "mergetext")) {
      struct iwpool *pool = iwpool_create(4096);
      int pos = 3;
      struct jbl_node *doc = hxj_build(w, n, &pos, pool, 0);
      size_t tl; char *text = (char*) hx_parse(w[2], &tl);
      if (!doc || pos != n) printf("bad-op\n");
      else if (!strcmp(w[1], "njson")) {
        iwrc rc = jbn_merge_patch_from_json(doc, text, pool);
        int budget = HXJ_BUDGET;
        int kl = hxp_klidx_ok(doc, &budget);
        printf("%s ", rc ? "error" : "ok"); hxp_dump_node(doc); printf(" kl=%d\n", kl);
      } else {
        struct jbl *jbl = 0;
        iwrc rc = jbl_from_node(&jbl, doc);
        if (rc) printf("from-node-%s\n", hxp_rc(rc));
        else {
          size_t bsz; uint8_t *before = hxp_bytes(jbl, &bsz);
          rc = jbl_merge_patch(jbl, text);
          int same = hxp_same_bytes(jbl, before, bsz);
          printf("%s ", rc ? "error" : "ok"); hxp_dump_jbl(jbl); printf(" same=%d\n", same);
          free(before);
        }
        if (jbl) jbl_destroy(&jbl);
      }
      free(text);
      iwpool_destroy(pool);
      continue;
    }
    int sep = hxp_sep(w, n);
    if (n < 5 || sep < 3 || (strcmp(w[0], "merge") && strcmp(w[0], "mergepath"))) { printf("bad-op\n"); continue; }
    int is_path = !strcmp(w[0], "mergepath");
    const char *mode = w[1];
    struct iwpool *pool = iwpool_create(4096);
    int pos = is_path ? 3 : 2;
    struct jbl_node *doc = hxj_build(w, sep, &pos, pool, 0);
    int ppos = sep + 1;
    struct jbl_node *patch = 0;
    int noval = is_path && n == sep + 2 && !strcmp(w[sep + 1], "-");
    if (!noval) patch = hxj_build(w, n, &ppos, pool, 0);
    if (!doc || pos != sep || (!noval && (!patch || ppos != n))) { printf("bad-op\n"); iwpool_destroy(pool); continue; }
    iwrc rc = 0;
    if (is_path) {
      size_t pl; char *ptr = (char*) hx_parse(w[2], &pl);
      if (!strcmp(mode, "pool")) {
        rc = jbn_merge_patch_path(doc, ptr, patch, pool);
        tree_answer(rc, doc);
      } else if (!strcmp(mode, "heap")) {
        struct jbl_node *h = 0;
        rc = jbn_clone(doc, &h, 0);
        if (rc) printf("clone-%s\n", hxp_rc(rc));
        else {
          rc = jbn_merge_patch_path(h, ptr, patch, 0);
          tree_answer(rc, h);
          jbn_visit2(h, 0, free_visitor);
        }
      } else if (!strcmp(mode, "reg")) {
        struct iwjsreg *reg = 0;
        struct iwjsreg_spec spec = { .path = argc > 1 ? argv[1] : "/var/tmp/h_c16-nonexistent.reg", .flags = IWJSREG_READONLY };
        rc = iwjsreg_open(&spec, &reg);
        struct jbl_node *h = 0;
        if (!rc) rc = jbn_clone(doc, &h, 0);
        if (rc) printf("reg-open-%s\n", hxp_rc(rc));
        else {
          jbn_visit2(reg->root, 0, free_visitor);
          reg->root = h;
          rc = iwjsreg_merge(reg, ptr, patch);
          tree_answer(rc, reg->root);
        }
        if (reg) iwjsreg_close(&reg);
      } else printf("bad-op\n");
      free(ptr);
    } else if (!strcmp(mode, "node")) {
      rc = jbn_merge_patch(doc, patch, pool);
      tree_answer(rc, doc);
    } else if (!strcmp(mode, "auto")) {
      rc = jbn_patch_auto(doc, patch, pool);
      tree_answer(rc, doc);
    } else if (!strcmp(mode, "heap")) {
      struct jbl_node *h = 0;
      rc = jbn_clone(doc, &h, 0);
      if (rc) printf("clone-%s\n", hxp_rc(rc));
      else {
        rc = jbn_merge_patch(h, patch, 0);
        tree_answer(rc, h);
        jbn_visit2(h, 0, free_visitor);
      }
    } else if (!strcmp(mode, "njson")) {
      char *text = 0;
      rc = jbn_as_json_alloc(patch, 0, &text);
      if (rc) printf("as-json-%s\n", hxp_rc(rc));
      else {
        rc = jbn_merge_patch_from_json(doc, text, pool);
        tree_answer(rc, doc);
        free(text);
      }
    } else if (!strcmp(mode, "jbl") || !strcmp(mode, "jbljbl")) {
      struct jbl *jbl = 0, *pj = 0;
      rc = jbl_from_node(&jbl, doc);
      if (!rc && !strcmp(mode, "jbljbl")) rc = jbl_from_node(&pj, patch);
      if (rc) printf("from-node-%s\n", hxp_rc(rc));
      else {
        size_t bsz; uint8_t *before = hxp_bytes(jbl, &bsz);
        if (pj) rc = jbl_merge_patch_jbl(jbl, pj);
        else {
          char *text = 0;
          rc = jbn_as_json_alloc(patch, 0, &text);
          if (!rc) rc = jbl_merge_patch(jbl, text);
          free(text);
        }
        int same = hxp_same_bytes(jbl, before, bsz);
        printf("%s ", hxp_rc(rc)); hxp_dump_jbl(jbl); printf(" same=%d\n", same);
        free(before);
      }
      if (jbl) jbl_destroy(&jbl);
      if (pj) jbl_destroy(&pj);
    } else printf("bad-op\n");
    iwpool_destroy(pool);
  }
  fflush(stdout);
  return 0;
}
