// C15 harness: JSON Patch through the four public entry points, one result line per op line.
//
//   patch <mode> <doc wire tokens> | <patch wire tokens>
//     mode auto : jbn_patch_auto(root, patch tree, pool)            (decoder _jbl_create_patch + tree)
//     mode node : jbn_patch(root, struct jbl_patch[], n, pool)     (patch array decoded here, exact member names)
//     mode jbl  : jbl_patch(jbl, struct jbl_patch[], n)            (binary form)
//     mode json : jbl_patch_from_json(jbl, text of the patch)      (decoder + binary form)
//   bpatch <jbl|json> <binn bytes hex> | <patch wire tokens>
//     the same two binary entry points on a holder built over the given BYTES (jbl_from_buf_keep);
//     answer: <rc> <binn bytes hex of the holder afterwards | scalar <wire>>
//   bseq <jbl|json> <binn bytes hex> | <patch> | <patch> ...
//     the patch documents applied to the same holder one after the other; answer: <rc>,<rc>,... <bytes afterwards>
//   answer, tree modes:   <rc> <doc wire | NONE> kl=<0|1>
//   answer, binary modes: <rc> <doc wire | NONE> same=<0|1>        (same: bytes of the document unchanged)
#include "hx_jp.h"

static const char *opnames[] = { "", "add", "remove", "replace", "copy", "move", "test", "increment", "add_create", "swap" };

static struct jbl_node* member(struct jbl_node *obj, const char *key) {
  for (struct jbl_node *c = obj->child; c; c = c->next) if (c->key && !strcmp(c->key, key)) return c;
  return 0;
}

// exact decoder used for the struct jbl_patch[] entry points; returns count or -1
static int decode(struct jbl_node *patch, struct jbl_patch **out, struct iwpool *pool) {
  if (!patch || patch->type != JBV_ARRAY) return -1;
  int n = jbn_length(patch);
  struct jbl_patch *p = iwpool_calloc(sizeof(*p) * (n + 1), pool);
  int i = 0;
  for (struct jbl_node *e = patch->child; e; e = e->next, ++i) {
    if (e->type != JBV_OBJECT) return -1;
    struct jbl_node *op = member(e, "op"), *path = member(e, "path"), *from = member(e, "from"), *value = member(e, "value");
    if (!op || op->type != JBV_STR || !path || path->type != JBV_STR || (from && from->type != JBV_STR)) return -1;
    for (int k = 1; k < 10; ++k) if (!strcmp(op->vptr, opnames[k])) p[i].op = k;
    if (!p[i].op) return -1;
    p[i].path = path->vptr;
    p[i].from = from ? from->vptr : 0;
    p[i].vnode = value;
  }
  *out = p;
  return n;
}

// one binary entry point on a holder; 0 = the patch could not be handed over (harness-level refusal)
static int byte_patch(const char *mode, struct jbl *jbl, struct jbl_node *patch, struct iwpool *pool, iwrc *rcp) {
  if (!strcmp(mode, "jbl")) {
    struct jbl_patch *p = 0;
    int cnt = decode(patch, &p, pool);
    if (cnt < 0) return 0;
    *rcp = jbl_patch(jbl, p, cnt);
  } else {
    char *text = 0;
    iwrc rc = jbn_as_json_alloc(patch, 0, &text);
    if (rc) return 0;
    *rcp = jbl_patch_from_json(jbl, text);
    free(text);
  }
  return 1;
}

static void byte_ops(char **w, int n) {
  int seq = !strcmp(w[0], "bseq");
  const char *mode = w[1];
  if (n < 5 || strcmp(w[3], "|") || (strcmp(mode, "jbl") && strcmp(mode, "json"))) { printf("bad-op\n"); return; }
  iwrc rc = 0;
  struct jbl *jbl = hxp_holder(w[2], &rc);
  if (!jbl) { printf("from-buf-%s\n", hxp_rc(rc)); return; }
  struct iwpool *pool = iwpool_create(4096);
  int pos = 4, first = 1, bad = 0;
  while (pos < n && !bad) {
    int end = pos;
    while (end < n && strcmp(w[end], "|")) end++;
    int pp = pos;
    struct jbl_node *patch = hxj_build(w, end, &pp, pool, 0);
    if (!patch || pp != end || (!seq && end != n)) { bad = 1; break; }
    if (!byte_patch(mode, jbl, patch, pool, &rc)) { bad = 2; break; }
    printf("%s%s", first ? "" : ",", hxp_rc(rc));
    first = 0;
    pos = end + 1;
  }
  if (bad) printf("%s\n", bad == 1 ? "bad-op" : "bad-patch");
  else { fputc(' ', stdout); hxp_dump_holder(jbl); fputc('\n', stdout); }
  jbl_destroy(&jbl);
  iwpool_destroy(pool);
}

int main(int argc, char **argv) {
  setvbuf(stdout, 0, _IOLBF, 0);
  hxp_watchdog_init();
  char *line = malloc(HX_MAXLINE);
  char **w = malloc(sizeof(char*) * 65536);
  while (alarm(0), fgets(line, HX_MAXLINE, stdin)) {
    alarm(HXP_OP_SECONDS);
    int n = hx_words(line, w, 65536);
    if (n >= 1 && (!strcmp(w[0], "bpatch") || !strcmp(w[0], "bseq"))) { byte_ops(w, n); continue; }
    int sep = hxp_sep(w, n);
    if (n < 5 || strcmp(w[0], "patch") || sep < 3) { printf("bad-op\n"); continue; }
    const char *mode = w[1];
    struct iwpool *pool = iwpool_create(4096);
    int pos = 2;
    struct jbl_node *doc = hxj_build(w, sep, &pos, pool, 0);
    int ppos = sep + 1;
    struct jbl_node *patch = hxj_build(w, n, &ppos, pool, 0);
    if (!doc || pos != sep || !patch || ppos != n) { printf("bad-op\n"); iwpool_destroy(pool); continue; }
    iwrc rc = 0;
    if (!strcmp(mode, "auto") || !strcmp(mode, "node")) {
      if (!strcmp(mode, "auto")) {
        rc = jbn_patch_auto(doc, patch, pool);
      } else {
        struct jbl_patch *p = 0;
        int cnt = decode(patch, &p, pool);
        if (cnt < 0) { printf("bad-patch\n"); iwpool_destroy(pool); continue; }
        rc = jbn_patch(doc, p, cnt, pool);
      }
      int budget = HXJ_BUDGET;
      int kl = hxp_klidx_ok(doc, &budget);
      printf("%s ", hxp_rc(rc)); hxp_dump_node(doc); printf(" kl=%d\n", kl);
    } else if (!strcmp(mode, "jbl") || !strcmp(mode, "json")) {
      struct jbl *jbl = 0;
      rc = jbl_from_node(&jbl, doc);
      if (rc) { printf("from-node-%s\n", hxp_rc(rc)); if (jbl) jbl_destroy(&jbl); iwpool_destroy(pool); continue; }
      size_t bsz; uint8_t *before = hxp_bytes(jbl, &bsz);
      if (!strcmp(mode, "jbl")) {
        struct jbl_patch *p = 0;
        int cnt = decode(patch, &p, pool);
        if (cnt < 0) { printf("bad-patch\n"); free(before); jbl_destroy(&jbl); iwpool_destroy(pool); continue; }
        rc = jbl_patch(jbl, p, cnt);
      } else {
        char *text = 0;
        rc = jbn_as_json_alloc(patch, 0, &text);
        if (rc) { printf("as-json-%s\n", hxp_rc(rc)); free(before); jbl_destroy(&jbl); iwpool_destroy(pool); continue; }
        rc = jbl_patch_from_json(jbl, text);
        free(text);
      }
      int same = hxp_same_bytes(jbl, before, bsz);
      printf("%s ", hxp_rc(rc)); hxp_dump_jbl(jbl); printf(" same=%d\n", same);
      free(before);
      jbl_destroy(&jbl);
    } else printf("bad-op\n");
    iwpool_destroy(pool);
  }
  fflush(stdout);
  return 0;
}
