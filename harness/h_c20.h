// C20 harness: shared declarations
#pragma once
#include <pthread.h>
#include <stddef.h>
struct iwstw;
struct iwtp;
int c20_task_id(void *arg);
pthread_mutex_t* c20_stw_mtx(struct iwstw *s);
pthread_cond_t* c20_stw_cond(struct iwstw *s);
pthread_cond_t* c20_stw_cond_queue(struct iwstw *s);
int c20_stw_shutdown_flag(struct iwstw *s);
void c20_stw_snapshot(struct iwstw *s, char *out, size_t n, int maxq);
pthread_mutex_t* c20_tp_mtx(struct iwtp *s);
pthread_cond_t* c20_tp_cond(struct iwtp *s);
int c20_tp_shutdown_flag(struct iwtp *s);
void c20_tp_snapshot(struct iwtp *s, char *out, size_t n, int maxq);
