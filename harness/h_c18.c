// C18 harness: containers of src/utils driven by op lines, one canonical result line per op.
//   hm = iwhmap, ul = iwulist, pl = iwlist, sa = iwarr_sorted_*, av = iwavl, rb = iwrb, xs = iwxstr, po = iwpool
// Owned elements are heap objects of the harness; every free callback is logged (`free=`) and the heap
// balance between `new` and `destroy` is printed (`leak=`), ASan watches the rest.
#include "iwhmap.c"   // bucket internals for `hm raw` (iwhmap.o is left out at link time)
#include "iwpool.c"   // unit chain for canonical allocation addresses (iwpool.o is left out)
#include "iwarr.h"
#include "iwavl.h"
#include "iwrb.h"
#include "iwxstr.h"
#include "hx.h"
#include <stdarg.h>

size_t __sanitizer_get_current_allocated_bytes(void);

// ------------------------------------------------------------------ output line + free log
static char *ob; static size_t obn, obcap;
static void out(const char *fmt, ...) {
  va_list ap; va_start(ap, fmt);
  if (obcap - obn < 4096) { va_end(ap); return; }   // budget (fixed buffer: the heap balance must not see us)
  int n = vsnprintf(ob + obn, obcap - obn, fmt, ap); va_end(ap);
  if (n > 0 && (size_t) n < obcap - obn) obn += n;
}
static void outhex(const void *p, size_t n) {
  const uint8_t *b = p;
  if (!n) { out("-"); return; }
  for (size_t i = 0; i < n; ++i) out("%02x", b[i]);
}
static void flush_line(void) { ob[obn] = 0; puts(ob); obn = 0; }

static char *fl; static size_t fln, flcap; static int flcount;
static void fl_add(const char *fmt, ...) {
  va_list ap; va_start(ap, fmt);
  if (flcap - fln < 1024) { va_end(ap); return; }    // budget
  if (flcount++) fl[fln++] = ',';
  fln += vsnprintf(fl + fln, flcap - fln, fmt, ap); va_end(ap);
}
static void fl_addhex(char tag, const uint8_t *b, size_t n) {
  if (flcap - fln < 2 * n + 64) return;
  if (flcount++) fl[fln++] = ',';
  fl[fln++] = tag;
  if (!n) fl[fln++] = '-';
  for (size_t i = 0; i < n; ++i) fln += sprintf(fl + fln, "%02x", b[i]);
}
static void out_free(void) {
  if (!flcount) out(" free=-"); else { fl[fln] = 0; out(" free=%s", fl); }
  fln = 0; flcount = 0;
}

static size_t heap_base;
static void heap_mark(void) { heap_base = __sanitizer_get_current_allocated_bytes(); }
static long heap_leak(void) { return (long) __sanitizer_get_current_allocated_bytes() - (long) heap_base; }

// ------------------------------------------------------------------ hash map
typedef struct { long id; uint32_t hash; } obj_t;
static struct iwhmap *hm; static int hm_kind; static uint32_t hm_M, hm_S;   // kind: 0 u32, 1 u64, 2 str, 3 ptr
static obj_t* mkobj(long id, uint32_t hash) { obj_t *o = malloc(sizeof(*o)); o->id = id; o->hash = hash; return o; }
static uint32_t ptr_hash_of(long id) { return (uint32_t) ((hm_M ? (uint64_t) id % hm_M : (uint64_t) id) * hm_S); }
static uint32_t h_ptr_hash(const void *k) { return ((const obj_t*) k)->hash; }
static int h_ptr_cmp(const void *a, const void *b) { long x = ((const obj_t*) a)->id, y = ((const obj_t*) b)->id; return x < y ? -1 : x > y; }
static void h_kvfree(void *k, void *v) {
  if (k) {
    if (hm_kind == 2) { fl_addhex('k', k, strlen(k)); free(k); }
    else if (hm_kind == 3) { fl_add("k%ld", ((obj_t*) k)->id); free(k); }
    else fl_add("k?");                               // integer keys are passed as 0 by the map
  }
  if (v) { fl_add("v%ld", ((obj_t*) v)->id); free(v); }
}
static void hm_key_out(const void *k) {
  if (hm_kind == 2) outhex(k, strlen(k)); else if (hm_kind == 3) out("%ld", ((const obj_t*) k)->id);
  else out("%" PRIu64, (uint64_t) (uintptr_t) k);
}
static void hm_op(int n, char **w) {
  const char *op = w[1];
  if (!strcmp(op, "new") && n >= 3) {
    if (hm) { iwhmap_destroy(hm); hm = 0; fln = 0; flcount = 0; }
    heap_mark();
    hm_kind = !strcmp(w[2], "u32") ? 0 : !strcmp(w[2], "u64") ? 1 : !strcmp(w[2], "str") ? 2 : 3;
    hm_M = n > 3 ? strtoul(w[3], 0, 10) : 0; hm_S = n > 4 ? strtoul(w[4], 0, 10) : 1;
    hm = hm_kind == 0 ? iwhmap_create_u32(h_kvfree) : hm_kind == 1 ? iwhmap_create_u64(h_kvfree)
         : hm_kind == 2 ? iwhmap_create_str(h_kvfree) : iwhmap_create(h_ptr_cmp, h_ptr_hash, h_kvfree);
    out("ok"); return;
  }
  if (!hm) { out("no-map"); return; }
  if (!strcmp(op, "lru") && n == 3) {
    iwhmap_lru_init(hm, iwhmap_lru_eviction_max_count, (void*) (uintptr_t) strtoul(w[2], 0, 10)); out("ok");
  } else if (!strcmp(op, "put") && n == 4) {
    obj_t *v = mkobj(strtol(w[3], 0, 10), 0); iwrc rc;
    if (hm_kind == 0) rc = iwhmap_put_u32(hm, (uint32_t) strtoul(w[2], 0, 10), v);
    else if (hm_kind == 1) rc = iwhmap_put_u64(hm, strtoull(w[2], 0, 10), v);
    else if (hm_kind == 2) { size_t l; uint8_t *k = hx_parse(w[2], &l); rc = iwhmap_put_str(hm, (char*) k, v); free(k); }
    else { long id = strtol(w[2], 0, 10); rc = iwhmap_put(hm, mkobj(id, ptr_hash_of(id)), v); }
    out("put %d n=%u", rc ? 1 : 0, iwhmap_count(hm)); out_free();
  } else if ((!strcmp(op, "get") || !strcmp(op, "rm")) && n == 3) {
    int rm = op[0] == 'r'; void *r = 0; bool b = false;
    if (hm_kind == 0) { uint32_t k = strtoul(w[2], 0, 10); if (rm) b = iwhmap_remove_u32(hm, k); else r = iwhmap_get_u32(hm, k); }
    else if (hm_kind == 1) { uint64_t k = strtoull(w[2], 0, 10); if (rm) b = iwhmap_remove_u64(hm, k); else r = iwhmap_get_u64(hm, k); }
    else if (hm_kind == 2) { size_t l; uint8_t *k = hx_parse(w[2], &l); if (rm) b = iwhmap_remove(hm, k); else r = iwhmap_get(hm, k); free(k); }
    else { long id = strtol(w[2], 0, 10); obj_t k = { id, ptr_hash_of(id) }; if (rm) b = iwhmap_remove(hm, &k); else r = iwhmap_get(hm, &k); }
    if (rm) { out("rm %d n=%u", b, iwhmap_count(hm)); out_free(); }
    else if (r) out("get %ld", ((obj_t*) r)->id); else out("get nil");
  } else if (!strcmp(op, "ren") && n == 4) {
    iwrc rc; void *ko, *kn; void *tofree = 0; obj_t kos;
    if (hm_kind == 0 || hm_kind == 1) { ko = (void*) (uintptr_t) strtoull(w[2], 0, 10); kn = (void*) (uintptr_t) strtoull(w[3], 0, 10); }
    else if (hm_kind == 2) { size_t l; ko = tofree = hx_parse(w[2], &l); uint8_t *t = hx_parse(w[3], &l); kn = strdup((char*) t); free(t); }
    else { long a = strtol(w[2], 0, 10), b = strtol(w[3], 0, 10); kos = (obj_t) { a, ptr_hash_of(a) }; ko = &kos; kn = mkobj(b, ptr_hash_of(b)); }
    bool present = _entry_find(hm, ko, hm->hash_key_fn(ko)) != 0;
    rc = iwhmap_rename(hm, ko, kn);
    if (!present && hm_kind >= 2) free(kn);          // not consumed: still ours
    free(tofree);
    out("ren %d n=%u", rc ? 1 : 0, iwhmap_count(hm)); out_free();
  } else if (!strcmp(op, "clear")) {
    iwhmap_clear(hm); out("clear n=%u", iwhmap_count(hm)); out_free();
  } else if (!strcmp(op, "count")) {
    out("count %u", iwhmap_count(hm));
  } else if (!strcmp(op, "iter")) {
    struct iwhmap_iter it; iwhmap_iter_init(hm, &it); out("iter"); int budget = 100000;
    while (iwhmap_iter_next(&it) && budget-- > 0) { out(" "); hm_key_out(it.key); out("=%ld", it.val ? ((const obj_t*) it.val)->id : 0L); }
  } else if (!strcmp(op, "raw")) {
    out("raw mask=%u cnt=%u lru=", hm->buckets_mask, hm->count);
    int budget = 100000, bad = 0, c = 0; lru_node_t *prev = 0;
    for (lru_node_t *x = hm->lru_first; x && budget-- > 0; prev = x, x = x->next) {
      if (c++) out(","); hm_key_out(x->key); if (x->prev != prev) bad = 1;
    }
    if (!c) out("none");
    if (hm->lru_last != prev) bad = 1;
    if (bad) out(" lrubad");
    out(" b=");
    for (uint32_t i = 0, c2 = 0; i <= hm->buckets_mask; ++i) {
      bucket_t *b = hm->buckets + i;
      if (b->total || b->used) { if (c2++) out(";"); out("%u:%u/%u", i, b->used, b->total); }
    }
  } else if (!strcmp(op, "destroy")) {
    iwhmap_destroy(hm); hm = 0; out("destroy"); out_free(); out(" leak=%ld", heap_leak());
  } else out("bad-op");
}

// ------------------------------------------------------------------ unit list
static struct iwulist *ul; static size_t ul_us;
static uint8_t* ul_unit(const char *hex) {   // exactly usize bytes (padded with zeros / cut)
  size_t l; uint8_t *b = hx_parse(hex, &l); uint8_t *u = calloc(1, ul_us + 1); memcpy(u, b, l < ul_us ? l : ul_us); free(b); return u;
}
static int ul_cmp(const void *a, const void *b, void *op) { return memcmp(a, b, ul_us); }
static void ul_dump(const struct iwulist *l) {
  out(" s=%zu a=%zu n=%zu [", l->start, l->anum, l->num);
  for (size_t i = 0; i < l->num && i < 100000; ++i) { if (i) out(","); outhex(iwulist_get(l, i), l->usize); }
  out("]");
}
static void ul_op(int n, char **w) {
  const char *op = w[1];
  if (!strcmp(op, "new") && n == 4) {
    if (ul) iwulist_destroy(&ul);
    heap_mark(); ul_us = strtoul(w[2], 0, 10); ul = iwulist_create(strtoul(w[3], 0, 10), ul_us); out("ok"); return;
  }
  if (!ul) { out("no-list"); return; }
  if (!strcmp(op, "push") && n == 3) { uint8_t *u = ul_unit(w[2]); out("push %d", iwulist_push(ul, u) != 0); free(u); }
  else if (!strcmp(op, "unshift") && n == 3) { uint8_t *u = ul_unit(w[2]); out("unshift %d", iwulist_unshift(ul, u) != 0); free(u); }
  else if (!strcmp(op, "pop")) out("pop %d", iwulist_pop(ul) != 0);
  else if (!strcmp(op, "shift")) out("shift %d", iwulist_shift(ul) != 0);
  else if (!strcmp(op, "insert") && n == 4) { uint8_t *u = ul_unit(w[3]); out("insert %d", iwulist_insert(ul, strtoul(w[2], 0, 10), u) != 0); free(u); }
  else if (!strcmp(op, "set") && n == 4) { uint8_t *u = ul_unit(w[3]); out("set %d", iwulist_set(ul, strtoul(w[2], 0, 10), u) != 0); free(u); }
  else if (!strcmp(op, "rm") && n == 3) out("rm %d", iwulist_remove(ul, strtoul(w[2], 0, 10)) != 0);
  else if (!strcmp(op, "rmby") && n == 3) { uint8_t *u = ul_unit(w[2]); out("rmby %d", iwulist_remove_first_by(ul, u)); free(u); }
  else if (!strcmp(op, "find") && n == 3) { uint8_t *u = ul_unit(w[2]); out("find %zd", iwulist_find_first(ul, u)); free(u); }
  else if (!strcmp(op, "get") && n == 3) {
    size_t i = strtoul(w[2], 0, 10); iwrc rc; void *p = iwulist_at(ul, i, &rc), *p2 = iwulist_at2(ul, i), *p3 = iwulist_get(ul, i);
    out("get "); if (p) outhex(p, ul_us); else out("nil"); if (p != p2 || p != p3 || (!p) != (rc != 0)) out(" inconsistent");
  } else if (!strcmp(op, "len")) out("len %zu", iwulist_length(ul));
  else if (!strcmp(op, "clear")) out("clear %d", iwulist_clear(ul) != 0);
  else if (!strcmp(op, "reset")) { iwulist_reset(ul); out("reset"); }
  else if (!strcmp(op, "sort")) { iwulist_sort(ul, ul_cmp, 0); out("sort"); }
  else if (!strcmp(op, "clone")) { struct iwulist *c = iwulist_clone(ul); out("clone"); if (c) { ul_dump(c); iwulist_destroy(&c); } else out(" nil"); }
  else if (!strcmp(op, "copy")) {
    struct iwulist *c = iwulist_create(1, ul_us); iwrc rc = iwulist_copy(ul, c); out("copy %d", rc != 0); ul_dump(c); iwulist_destroy(&c);
  } else if (!strcmp(op, "dump")) { out("dump"); ul_dump(ul); if (ul->num && iwulist_array(ul) != iwulist_get(ul, 0)) out(" array-mismatch"); }
  else if (!strcmp(op, "destroy")) { iwulist_destroy(&ul); out("destroy leak=%ld", heap_leak()); }
  else out("bad-op");
}

// ------------------------------------------------------------------ pointer list
static IWLIST *pl;
static int pl_cmp(const IWLISTITEM *a, const IWLISTITEM *b, void *op) {
  size_t m = a->size < b->size ? a->size : b->size; int r = memcmp(a->val, b->val, m);
  return r ? r : a->size < b->size ? -1 : a->size > b->size;
}
static void pl_item(const char *v, size_t sz) { outhex(v, sz); if (v[sz] != 0) out("!noterm"); }
static void pl_dump(const IWLIST *l) {
  out(" s=%zu a=%zu n=%zu [", l->start, l->anum, l->num);
  for (size_t i = 0; i < l->num && i < 100000; ++i) { size_t sz; char *v = iwlist_get(l, i, &sz); if (i) out(","); pl_item(v, sz); }
  out("]");
}
static void pl_op(int n, char **w) {
  const char *op = w[1]; size_t l = 0, sz = 0; iwrc rc = 0;
  if (!strcmp(op, "new") && n == 3) {
    if (pl) iwlist_destroy(&pl);
    heap_mark(); pl = iwlist_create(strtoul(w[2], 0, 10)); out("ok"); return;
  }
  if (!pl) { out("no-list"); return; }
  if (!strcmp(op, "push") && n == 3) { uint8_t *b = hx_parse(w[2], &l); out("push %d", iwlist_push(pl, b, l) != 0); free(b); }
  else if (!strcmp(op, "unshift") && n == 3) { uint8_t *b = hx_parse(w[2], &l); out("unshift %d", iwlist_unshift(pl, b, l) != 0); free(b); }
  else if (!strcmp(op, "insert") && n == 4) { uint8_t *b = hx_parse(w[3], &l); out("insert %d", iwlist_insert(pl, strtoul(w[2], 0, 10), b, l) != 0); free(b); }
  else if (!strcmp(op, "set") && n == 4) { uint8_t *b = hx_parse(w[3], &l); out("set %d", iwlist_set(pl, strtoul(w[2], 0, 10), b, l) != 0); free(b); }
  else if (!strcmp(op, "pop") || !strcmp(op, "shift") || (!strcmp(op, "rm") && n == 3)) {
    char *v = op[0] == 'p' ? iwlist_pop(pl, &sz, &rc) : op[0] == 's' ? iwlist_shift(pl, &sz, &rc) : iwlist_remove(pl, strtoul(w[2], 0, 10), &sz, &rc);
    out("%s ", op); if (v) { pl_item(v, sz); free(v); } else out("nil"); if ((!v) != (rc != 0)) out(" inconsistent");
  } else if (!strcmp(op, "get") && n == 3) {
    size_t i = strtoul(w[2], 0, 10), s2 = 0, s3 = 0; char *v = iwlist_at(pl, i, &sz, &rc), *v2 = iwlist_at2(pl, i, &s2), *v3 = iwlist_get(pl, i, &s3);
    out("get "); if (v) pl_item(v, sz); else out("nil"); if (v != v2 || v != v3 || (v && (sz != s2 || sz != s3)) || (!v) != (rc != 0)) out(" inconsistent");
  } else if (!strcmp(op, "len")) out("len %zu", iwlist_length(pl));
  else if (!strcmp(op, "sort")) { iwlist_sort(pl, pl_cmp, 0); out("sort"); }
  else if (!strcmp(op, "clone")) { IWLIST *c = iwlist_clone(pl); out("clone"); if (c) { pl_dump(c); iwlist_destroy(&c); } else out(" nil"); }
  else if (!strcmp(op, "dump")) { out("dump"); pl_dump(pl); }
  else if (!strcmp(op, "destroy")) { iwlist_destroy(&pl); out("destroy leak=%ld", heap_leak()); }
  else out("bad-op");
}

// ------------------------------------------------------------------ sorted array helpers
static int64_t *sa; static size_t sa_n, sa_cap;
static int sa_cmp(const void *a, const void *b) { int64_t x = *(const int64_t*) a, y = *(const int64_t*) b; return x < y ? -1 : x > y; }
static int sa_cmp2(const void *a, const void *b, void *op) { return sa_cmp(a, b); }
static void sa_op(int n, char **w) {
  const char *op = w[1];
  if (!strcmp(op, "new")) { free(sa); sa_cap = 4; sa_n = 0; sa = malloc(sa_cap * 8); out("ok"); return; }
  if (!sa) { out("no-arr"); return; }
  int64_t v = n > 2 ? strtoll(w[2], 0, 10) : 0;
  if (!strcmp(op, "ins") && n == 4) {
    if (sa_n + 1 > sa_cap) { sa_cap = sa_n + 1; sa = realloc(sa, sa_cap * 8); }   // exact fit: ASan sees any overrun
    off_t i = iwarr_sorted_insert(sa, sa_n, 8, &v, sa_cmp, w[3][0] == '1'); if (i >= 0) sa_n++;
    out("ins %lld", (long long) i);
  } else if (!strcmp(op, "rm") && n == 3) {
    off_t i = iwarr_sorted_remove(sa, sa_n, 8, &v, sa_cmp); if (i >= 0) sa_n--;
    out("rm %lld", (long long) i);
  } else if (!strcmp(op, "find") && n == 3) {
    bool found = false; off_t i = iwarr_sorted_find(sa, sa_n, 8, &v, sa_cmp), j = iwarr_sorted_find2(sa, sa_n, 8, &v, 0, &found, sa_cmp2);
    out("find %lld %lld %d", (long long) i, (long long) j, found);
  } else if (!strcmp(op, "dump")) {
    out("dump [");
    for (size_t i = 0; i < sa_n; ++i) out(i ? ",%lld" : "%lld", (long long) sa[i]);
    out("]");
  } else if (!strcmp(op, "destroy")) { free(sa); sa = 0; out("destroy"); }
  else out("bad-op");
}

// ------------------------------------------------------------------ AVL tree
typedef struct { struct iwavl_node n; long key; } avn_t;
static struct iwavl_node *av_root; static int av_bad; static long av_budget;
#define AVK(p_) (iwavl_entry(p_, avn_t, n)->key)
static int av_cmp_nodes(const struct iwavl_node *a, const struct iwavl_node *b) { long x = AVK(a), y = AVK(b); return x < y ? -1 : x > y; }
static int av_cmp_key(const void *k, const struct iwavl_node *b) { long x = *(const long*) k, y = AVK(b); return x < y ? -1 : x > y; }
static void av_dump(const struct iwavl_node *x, const struct iwavl_node *parent) {
  if (!x || av_budget-- <= 0) { out("."); return; }
  if (iwavl_get_parent(x) != parent) av_bad = 1;
  out("(%ld%c", AVK(x), "-=+?"[x->parent_balance & 3]);
  if (x->left || x->right) { av_dump(x->left, x); av_dump(x->right, x); }
  out(")");
}
static void av_free_all(void) {
  avn_t *e;
  iwavl_for_each_in_postorder(e, av_root, avn_t, n) { free(e); }
  av_root = 0;
}
static void av_op(int n, char **w) {
  const char *op = w[1]; long k = n > 2 ? strtol(w[2], 0, 10) : 0;
  if (!strcmp(op, "new")) { av_free_all(); heap_mark(); out("ok"); }
  else if (!strcmp(op, "ins") && n == 3) {
    avn_t *e = malloc(sizeof(*e)); e->key = k;
    struct iwavl_node *dup = iwavl_insert(&av_root, &e->n, av_cmp_nodes);
    if (dup) free(e);
    out("ins %d", dup ? 0 : 1);
  } else if (!strcmp(op, "rm") && n == 3) {
    struct iwavl_node *x = iwavl_lookup(av_root, &k, av_cmp_key);
    if (x) { iwavl_remove(&av_root, x); free(iwavl_entry(x, avn_t, n)); }
    out("rm %d", x ? 1 : 0);
  } else if (!strcmp(op, "has") && n == 3) {
    avn_t probe; probe.key = k;
    struct iwavl_node *x = iwavl_lookup(av_root, &k, av_cmp_key), *y = iwavl_lookup_node(av_root, &probe.n, av_cmp_nodes);
    out("has %d", x ? 1 : 0); if (x != y) out(" inconsistent");
  } else if (!strcmp(op, "bounds") && n == 3) {
    const struct iwavl_node *lb, *ub; iwavl_lookup_bounds(av_root, &k, av_cmp_key, &lb, &ub);
    out("bounds "); if (lb) out("%ld", AVK(lb)); else out("nil"); out(" "); if (ub) out("%ld", AVK(ub)); else out("nil");
  } else if (!strcmp(op, "dump")) {
    av_bad = 0; av_budget = 200000; out("dump "); av_dump(av_root, 0); if (av_bad) out(" badparent");
  } else if (!strcmp(op, "iter")) {
    avn_t *e; long budget = 200000; out("iter");
    iwavl_for_each_in_order(e, av_root, avn_t, n) { if (budget-- <= 0) break; out(" %ld", e->key); }
  } else if (!strcmp(op, "riter")) {
    avn_t *e; long budget = 200000; out("riter");
    iwavl_for_each_in_reverse_order(e, av_root, avn_t, n) { if (budget-- <= 0) break; out(" %ld", e->key); }
  } else if (!strcmp(op, "post")) {
    avn_t *e; long budget = 200000; out("post");
    iwavl_for_each_in_postorder(e, av_root, avn_t, n) { if (budget-- <= 0) break; out(" %ld", e->key); }
  } else if (!strcmp(op, "destroy")) { av_free_all(); out("destroy leak=%ld", heap_leak()); }
  else out("bad-op");
}

// ------------------------------------------------------------------ ring buffer
static IWRB *rb; static size_t rb_us;
static void rb_op(int n, char **w) {
  const char *op = w[1];
  if (!strcmp(op, "new") && n == 4) {
    if (rb) iwrb_destroy(&rb);
    heap_mark(); rb_us = strtoul(w[2], 0, 10); rb = iwrb_create(rb_us, strtoul(w[3], 0, 10)); out("ok"); return;
  }
  if (!rb) { out("no-rb"); return; }
  if (!strcmp(op, "put") && n == 3) {
    size_t l; uint8_t *b = hx_parse(w[2], &l); uint8_t *u = calloc(1, rb_us + 1); memcpy(u, b, l < rb_us ? l : rb_us);
    iwrb_put(rb, u); free(u); free(b); out("put");
  } else if (!strcmp(op, "back")) { iwrb_back(rb); out("back"); }
  else if (!strcmp(op, "peek")) { void *p = iwrb_peek(rb); out("peek "); if (p) outhex(p, rb_us); else out("nil"); }
  else if (!strcmp(op, "num")) out("num %zu", iwrb_num_cached(rb));
  else if (!strcmp(op, "clear")) { iwrb_clear(rb); out("clear"); }
  else if (!strcmp(op, "iter")) {
    IWRB_ITER it; iwrb_iter_init(rb, &it); out("iter"); long budget = 100000; void *p;
    while ((p = iwrb_iter_prev(&it)) && budget-- > 0) { out(" "); outhex(p, rb_us); }
  } else if (!strcmp(op, "destroy")) { iwrb_destroy(&rb); out("destroy leak=%ld", heap_leak()); }
  else out("bad-op");
}

// ------------------------------------------------------------------ growable string
static struct iwxstr *xs;
static void xs_udfree(void *p) { fl_add("u%ld", ((obj_t*) p)->id); free(p); }
static void xs_dump(struct iwxstr *x) {
  size_t sz = iwxstr_size(x); char *p = iwxstr_ptr(x);
  out(" size=%zu asize=%zu ", sz, iwxstr_asize(x)); outhex(p, sz); out(" term=%d", sz < iwxstr_asize(x) && p[sz] == 0);
}
static void xs_op(int n, char **w) {
  const char *op = w[1]; size_t l = 0;
  if (!strcmp(op, "new") && n == 3) {
    if (xs) { iwxstr_destroy(xs); fln = 0; flcount = 0; }
    heap_mark(); xs = iwxstr_create(strtoul(w[2], 0, 10)); out("ok"); return;
  }
  if (!strcmp(op, "wrap") && n == 4) {
    if (xs) { iwxstr_destroy(xs); fln = 0; flcount = 0; }
    heap_mark(); uint8_t *b = hx_parse(w[2], &l); size_t as = strtoul(w[3], 0, 10);
    char *buf = malloc((as > l ? as : l) + 1); memcpy(buf, b, l); free(b);   // at least asize bytes, all data bytes defined
    xs = iwxstr_wrap(buf, l, as); out("ok"); return;
  }
  if (!xs) { out("no-xstr"); return; }
  if (!strcmp(op, "cat") && n == 3) { uint8_t *b = hx_parse(w[2], &l); out("cat %d", iwxstr_cat(xs, b, l) != 0); free(b); }
  else if (!strcmp(op, "cat2") && n == 3) { uint8_t *b = hx_parse(w[2], &l); out("cat2 %d", iwxstr_cat2(xs, (char*) b) != 0); free(b); }
  else if (!strcmp(op, "unshift") && n == 3) { uint8_t *b = hx_parse(w[2], &l); out("unshift %d", iwxstr_unshift(xs, b, l) != 0); free(b); }
  else if (!strcmp(op, "shift") && n == 3) { iwxstr_shift(xs, strtoul(w[2], 0, 10)); out("shift"); }
  else if (!strcmp(op, "pop") && n == 3) { iwxstr_pop(xs, strtoul(w[2], 0, 10)); out("pop"); }
  else if (!strcmp(op, "insert") && n == 4) { uint8_t *b = hx_parse(w[3], &l); out("insert %d", iwxstr_insert(xs, strtoul(w[2], 0, 10), b, l) != 0); free(b); }
  else if (!strcmp(op, "printf") && n == 4) { uint8_t *b = hx_parse(w[2], &l); out("printf %d", iwxstr_printf(xs, "%s|%ld", (char*) b, strtol(w[3], 0, 10)) != 0); free(b); }
  else if (!strcmp(op, "iprintf") && n == 5) {
    uint8_t *b = hx_parse(w[3], &l); out("iprintf %d", iwxstr_insert_printf(xs, strtoul(w[2], 0, 10), "%s|%ld", (char*) b, strtol(w[4], 0, 10)) != 0); free(b);
  } else if (!strcmp(op, "clear")) { iwxstr_clear(xs); out("clear"); }
  else if (!strcmp(op, "setsize") && n == 3) { out("setsize %d", iwxstr_set_size(xs, strtoul(w[2], 0, 10)) != 0); out(" size=%zu asize=%zu", iwxstr_size(xs), iwxstr_asize(xs)); }
  else if (!strcmp(op, "clone")) { struct iwxstr *c = iwxstr_clone(xs); out("clone"); if (c) { xs_dump(c); iwxstr_destroy(c); } else out(" nil"); }
  else if (!strcmp(op, "ud") && n == 3) { iwxstr_user_data_set(xs, mkobj(strtol(w[2], 0, 10), 0), xs_udfree); out("ud"); out_free(); }
  else if (!strcmp(op, "udget")) { obj_t *o = iwxstr_user_data_get(xs); out("udget %ld", o ? o->id : 0L); }
  else if (!strcmp(op, "uddetach")) { obj_t *o = iwxstr_user_data_detach(xs); out("uddetach %ld", o ? o->id : 0L); free(o); iwxstr_user_data_set(xs, 0, 0); }
  else if (!strcmp(op, "dump")) { out("dump"); xs_dump(xs); }
  else if (!strcmp(op, "destroy")) { iwxstr_destroy(xs); xs = 0; out("destroy"); out_free(); out(" leak=%ld", heap_leak()); }
  else if (!strcmp(op, "keep")) { char *p = iwxstr_destroy_keep_ptr(xs); xs = 0; out("keep %s", p ? "ptr" : "nil"); free(p); out_free(); out(" leak=%ld", heap_leak()); }
  else out("bad-op");
}

// ------------------------------------------------------------------ memory pool
#define PO_MAXCH 16
// po_chref[c]: shadow count of the references the harness holds on child handle c (the creator's + one per `cref`); every
// iwpool_destroy that reaches the child (its own, or the parent's final destroy while it is attached) drops one.  A child
// whose parent is destroyed while po_chref[c] > 1 lives on as a parentless orphan: its handle stays valid until its holders
// have destroyed it.  Attached == (po != 0): orphans only exist after the main pool is gone.
static struct iwpool *po, *po_ch[PO_MAXCH]; static int po_nch, po_chref[PO_MAXCH];
static void po_udfree(void *p) { fl_add("u%ld", ((obj_t*) p)->id); free(p); }
static int po_live(void) { int k = 0; for (int i = 0; i < po_nch; ++i) if (po_ch[i]) ++k; return k; }
static void po_reset(void) {          // drop whatever an unfinished case left behind
  for (int g = 0; po && g < 1000; ++g) if (iwpool_destroy(po)) {
    po = 0;
    for (int i = 0; i < po_nch; ++i) if (po_ch[i] && --po_chref[i] <= 0) po_ch[i] = 0;
  }
  for (int i = 0; i < po_nch; ++i) for (; po_ch[i] && po_chref[i] > 0; --po_chref[i]) iwpool_destroy(po_ch[i]);
  po = 0; po_nch = 0; memset(po_ch, 0, sizeof(po_ch)); memset(po_chref, 0, sizeof(po_chref)); fln = 0; flcount = 0;
}
static void po_loc(struct iwpool *p, const void *ptr) {     // canonical address: unit index counted from the oldest + byte offset
  int nunits = 0, idx = -1, i = 0; long off = -1;
  for (struct iwpool_unit *u = p->unit; u; u = u->next) nunits++;
  for (struct iwpool_unit *u = p->unit; u; u = u->next, ++i) {   // unit sizes are not kept by the pool: nearest base below ptr
    long d = (const char*) ptr - (char*) u->heap;
    if (d >= 0 && (off < 0 || d < off)) { off = d; idx = nunits - 1 - i; }
  }
  out("%d:%ld", idx, off);
}
static void po_stat(struct iwpool *p) { out(" usiz=%zu asiz=%zu", iwpool_used_size(p), iwpool_allocated_size(p)); }
static void po_op(int n, char **w) {
  const char *op = w[1]; size_t l = 0;
  if ((!strcmp(op, "new") && n == 3) || !strcmp(op, "newempty")) {
    po_reset();
    heap_mark(); po = op[3] ? iwpool_create_empty() : iwpool_create(strtoul(w[2], 0, 10)); out("ok"); po_stat(po); return;
  }
  if (!po && !po_live()) { out("no-pool"); return; }
  // ---- calls on a child handle: attached child or orphan (the main pool may be gone)
  if (!strcmp(op, "calloc2") && n == 4) {   // allocate inside a child
    int c = atoi(w[2]); if (c < 0 || c >= po_nch || !po_ch[c]) { out("calloc2 nochild"); return; }
    void *p = iwpool_calloc(strtoul(w[3], 0, 10), po_ch[c]); out("calloc2 "); po_loc(po_ch[c], p); po_stat(po_ch[c]); return;
  } else if (!strcmp(op, "cud") && n == 4) {
    int c = atoi(w[2]); if (c < 0 || c >= po_nch || !po_ch[c]) { out("cud nochild"); return; }
    iwpool_user_data_set(po_ch[c], mkobj(strtol(w[3], 0, 10), 0), po_udfree); out("cud"); out_free(); return;
  } else if (!strcmp(op, "cref") && n == 3) {
    int c = atoi(w[2]); if (c < 0 || c >= po_nch || !po_ch[c]) { out("cref nochild"); return; }
    int k = iwpool_ref(po_ch[c]); ++po_chref[c]; out("cref %d", k); return;
  } else if (!strcmp(op, "cdestroy") && n == 3) {
    int c = atoi(w[2]); if (c < 0 || c >= po_nch || !po_ch[c]) { out("cdestroy nochild"); return; }
    bool b = iwpool_destroy(po_ch[c]); --po_chref[c]; if (b) po_ch[c] = 0;      // false: the pool is still there, one reference fewer
    out("cdestroy %d", b); out_free();
    if (b && !po && !po_live()) { po_nch = 0; out(" leak=%ld", heap_leak()); }  // the last pool of the family is gone
    return;
  }
  if (!po) { out("no-pool"); return; }
  if (!strcmp(op, "alloc") && n == 3) { void *p = iwpool_alloc(strtoul(w[2], 0, 10), po); out("alloc "); if (p) { po_loc(po, p); memset(p, 0xee, strtoul(w[2], 0, 10)); } else out("nil"); po_stat(po); }
  else if (!strcmp(op, "calloc") && n == 3) {
    size_t sz = strtoul(w[2], 0, 10); char *p = iwpool_calloc(sz, po); out("calloc "); int z = 1;
    if (p) { po_loc(po, p); for (size_t i = 0; i < sz; ++i) if (p[i]) z = 0; out(" zero=%d", z); } else out("nil"); po_stat(po);
  } else if (!strcmp(op, "strdup") && n == 3) {
    uint8_t *b = hx_parse(w[2], &l); iwrc rc; char *p = iwpool_strdup(po, (char*) b, &rc); out("strdup "); po_loc(po, p); out(" "); outhex(p, strlen(p)); po_stat(po); free(b);
  } else if (!strcmp(op, "strndup") && n == 4) {
    uint8_t *b = hx_parse(w[2], &l); size_t k = strtoul(w[3], 0, 10); if (k > l) k = l;
    char *p = iwpool_strndup2(po, (char*) b, k); out("strndup "); po_loc(po, p); out(" "); outhex(p, strlen(p)); po_stat(po); free(b);
  } else if (!strcmp(op, "printf") && n == 4) {
    uint8_t *b = hx_parse(w[2], &l); char *p = iwpool_printf(po, "%s|%ld", (char*) b, strtol(w[3], 0, 10)); out("printf "); po_loc(po, p); out(" "); outhex(p, strlen(p)); po_stat(po); free(b);
  } else if ((!strcmp(op, "split") || !strcmp(op, "psplit")) && n == 5) {
    uint8_t *h = hx_parse(w[2], &l), *sc = hx_parse(w[3], &l);
    const char **r = op[0] == 's' ? iwpool_split_string(po, (char*) h, (char*) sc, w[4][0] == '1')
                     : iwpool_printf_split(po, (char*) sc, w[4][0] == '1', "%s", (char*) h);
    out("%s", op); if (!r) out(" nil");
    for (int i = 0; r && r[i] && i < 100000; ++i) { out(" "); outhex(r[i], strlen(r[i])); }
    free(h); free(sc);
  } else if (!strcmp(op, "copyarr")) {
    const char **v = calloc(n, sizeof(*v));
    for (int i = 2; i < n; ++i) v[i - 2] = (char*) hx_parse(w[i], &l);
    const char **r = iwpool_copy_cstring_array(v, po);
    out("copyarr"); if (!r) out(" nil");
    for (int i = 0; r && i < n - 2; ++i) { out(" "); if (r[i]) outhex(r[i], strlen(r[i])); else out("NULL"); }   // the n-2 copies ...
    if (r) out(r[n - 2] ? " unterminated" : " end");                                                                 // ... and the terminator
    for (int i = 2; i < n; ++i) free((void*) v[i - 2]);
    free(v);
  } else if (!strcmp(op, "child") && n == 3) {
    if (po_nch >= PO_MAXCH) { out("child full"); return; }
    po_chref[po_nch] = 1; po_ch[po_nch++] = w[2][0] == 'e' ? iwpool_create_empty_attach(po) : iwpool_create_attach(po, strtoul(w[2], 0, 10)); out("child %d", po_nch - 1);
  } else if (!strcmp(op, "ud") && n == 3) { iwpool_user_data_set(po, mkobj(strtol(w[2], 0, 10), 0), po_udfree); out("ud"); out_free(); }
  else if (!strcmp(op, "udget")) { obj_t *o = iwpool_user_data_get(po); out("udget %ld", o ? o->id : 0L); }
  else if (!strcmp(op, "uddetach")) { obj_t *o = iwpool_user_data_detach(po); out("uddetach %ld", o ? o->id : 0L); free(o); iwpool_user_data_set(po, 0, 0); }
  else if (!strcmp(op, "ref")) out("ref %d", iwpool_ref(po));
  else if (!strcmp(op, "destroy")) {
    bool b = iwpool_destroy(po); out("destroy %d", b); out_free();
    if (b) {   // the attached children were destroyed once each: those with further references live on as orphans
      po = 0;
      for (int i = 0; i < po_nch; ++i) if (po_ch[i] && --po_chref[i] <= 0) po_ch[i] = 0;
      if (po_live()) out(" orphans=%d", po_live()); else { po_nch = 0; out(" leak=%ld", heap_leak()); }
    }
  } else out("bad-op");
}

int main(int argc, char **argv) {
  static char sbuf[1 << 16];
  setvbuf(stdout, sbuf, _IOLBF, sizeof(sbuf));
  char *line = malloc(HX_MAXLINE), *w[64];
  obcap = 1 << 23; ob = malloc(obcap); flcap = 1 << 22; fl = malloc(flcap);
  while (fgets(line, HX_MAXLINE, stdin)) {
    int n = hx_words(line, w, 64);
    if (n < 2) out("bad-op");
    else if (!strcmp(w[0], "hm")) hm_op(n, w);
    else if (!strcmp(w[0], "ul")) ul_op(n, w);
    else if (!strcmp(w[0], "pl")) pl_op(n, w);
    else if (!strcmp(w[0], "sa")) sa_op(n, w);
    else if (!strcmp(w[0], "av")) av_op(n, w);
    else if (!strcmp(w[0], "rb")) rb_op(n, w);
    else if (!strcmp(w[0], "xs")) xs_op(n, w);
    else if (!strcmp(w[0], "po")) po_op(n, w);
    else out("bad-op");
    flush_line();
  }
  return 0;
}
