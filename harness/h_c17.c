// C17 harness: text-consuming functions of the real code on exact-size heap buffers (so that ASan sees
// every access outside them), one canonical result line per op line.  Ops in the first group have a Lean
// model (drv c17); the second group is exploration only (sanitizers + watchdog + history independence).
#include "iwjser.c"   // _jbl_unescape_json_string, _jbl_parse_json_key (iwjser.o is left out at link time)
#include "hx_json.h"
#include "iwconv.h"
#include "iwre.h"
#include "cregex.h"
#include "iwini.h"
#include "iwutils.h"
#include "iwxstr.h"
#include "iwpool.h"
#include <signal.h>
#include <unistd.h>
#include <errno.h>

#define OUT_BUDGET 6000   // bytes of payload printed per line at most

// exact-size copy of a hex word: malloc(len + nul) so that one byte past the end is poisoned
static char* xbuf(const char *hex, size_t *len, int nul) {
  size_t l; uint8_t *t = hx_parse(hex, &l);
  char *b = malloc(l + (nul ? 1 : 0) + (!nul && !l ? 1 : 0));
  memcpy(b, t, l);
  if (nul) b[l] = 0;
  free(t);
  *len = l;
  return b;
}

static const char* rcname(iwrc rc) {
  static char buf[40];
  iwrc_strip_errno(&rc);
  switch (rc) {
    case 0: return "ok";
    case JBL_ERROR_PARSE_JSON: return "parse";
    case JBL_ERROR_PARSE_INVALID_CODEPOINT: return "codepoint";
    case JBL_ERROR_PARSE_UNQUOTED_STRING: return "unquoted";
    case JBL_ERROR_JSON_POINTER: return "pointer";
    case JBL_ERROR_MAX_NESTING_LEVEL_EXCEEDED: return "nesting";
    case JBL_ERROR_PATH_NOTFOUND: return "notfound";
    case JBL_ERROR_PATCH_INVALID: return "patch-invalid";
    case JBL_ERROR_PATCH_INVALID_OP: return "patch-invalid-op";
    case JBL_ERROR_PATCH_NOVALUE: return "patch-novalue";
    case JBL_ERROR_PATCH_TARGET_INVALID: return "patch-target";
    case JBL_ERROR_PATCH_INVALID_VALUE: return "patch-value";
    case JBL_ERROR_PATCH_INVALID_ARRAY_INDEX: return "patch-index";
    case JBL_ERROR_PATCH_TEST_FAILED: return "patch-test";
    case JBL_ERROR_CREATION: return "creation";
    case JBL_ERROR_INVALID: return "invalid";
    case JBL_ERROR_NOT_AN_OBJECT: return "not-object";
    case IW_ERROR_INVALID_ARGS: return "invalid-args";
    case IW_ERROR_ALLOC: return "alloc";
  }
  snprintf(buf, sizeof(buf), "rc%" PRIu64, (uint64_t) rc);
  return buf;
}

// prefix-notation dump of a parsed pattern (same token form as `nodeToks` of the Lean driver); returns the tree size
static int re_dump(const cregex_node_t *nd, const char *pat, int *budget, int depth) {
  if (depth > 100000) { printf(" ?deep"); return 0; }
  char tk[64]; int sz = 1; tk[0] = 0;
  switch (nd->type) {
    case REGEX_NODE_TYPE_EPSILON: snprintf(tk, sizeof(tk), "E"); break;
    case REGEX_NODE_TYPE_CHARACTER: snprintf(tk, sizeof(tk), "C%d", (int) (unsigned char) nd->ch); break;
    case REGEX_NODE_TYPE_ANY_CHARACTER: snprintf(tk, sizeof(tk), "A"); break;
    case REGEX_NODE_TYPE_CHARACTER_CLASS: snprintf(tk, sizeof(tk), "K%ld:%ld", (long) (nd->from - pat), (long) (nd->to - pat)); break;
    case REGEX_NODE_TYPE_CHARACTER_CLASS_NEGATED: snprintf(tk, sizeof(tk), "N%ld:%ld", (long) (nd->from - pat), (long) (nd->to - pat)); break;
    case REGEX_NODE_TYPE_CONCATENATION: snprintf(tk, sizeof(tk), "."); break;
    case REGEX_NODE_TYPE_ALTERNATION: snprintf(tk, sizeof(tk), "|"); break;
    case REGEX_NODE_TYPE_QUANTIFIER: snprintf(tk, sizeof(tk), "Q%d,%d,%d", nd->nmin, nd->nmax, nd->greedy ? 1 : 0); break;
    case REGEX_NODE_TYPE_ANCHOR_BEGIN: snprintf(tk, sizeof(tk), "B"); break;
    case REGEX_NODE_TYPE_ANCHOR_END: snprintf(tk, sizeof(tk), "Z"); break;
    case REGEX_NODE_TYPE_CAPTURE: snprintf(tk, sizeof(tk), "P"); break;
    default: snprintf(tk, sizeof(tk), "?%d", (int) nd->type);
  }
  if (*budget > 0) { printf(" %s", tk); --*budget; }
  switch (nd->type) {
    case REGEX_NODE_TYPE_CONCATENATION: case REGEX_NODE_TYPE_ALTERNATION:
      sz += re_dump(nd->left, pat, budget, depth + 1); sz += re_dump(nd->right, pat, budget, depth + 1); break;
    case REGEX_NODE_TYPE_QUANTIFIER: sz += re_dump(nd->quantified, pat, budget, depth + 1); break;
    case REGEX_NODE_TYPE_CAPTURE: sz += re_dump(nd->captured, pat, budget, depth + 1); break;
    default: break;
  }
  return sz;
}

static int re_size(const cregex_node_t *nd) {
  switch (nd->type) {
    case REGEX_NODE_TYPE_CONCATENATION: case REGEX_NODE_TYPE_ALTERNATION: return 1 + re_size(nd->left) + re_size(nd->right);
    case REGEX_NODE_TYPE_QUANTIFIER: return 1 + re_size(nd->quantified);
    case REGEX_NODE_TYPE_CAPTURE: return 1 + re_size(nd->captured);
    default: return 1;
  }
}

static void on_alarm(int sig) {
  static const char m[] = "\nWATCHDOG: operation did not terminate\n";
  (void) sig;
  if (write(2, m, sizeof(m) - 1)) {}
  _exit(97);
}

static void print_capped(const void *p, size_t n) {
  if (n > OUT_BUDGET) { hx_print(stdout, p, OUT_BUDGET); printf("+%zu", n - OUT_BUDGET); } else hx_print(stdout, p, n);
}

// ---- history perturbation: stale errno, recycled heap blocks full of junk, a used-up parser
static void perturb(unsigned n) {
  void *blk[64];
  unsigned s = n * 2654435761u + 12345u;
  for (int i = 0; i < 64; ++i) {
    s = s * 1103515245u + 12345u;
    size_t sz = 1 + (s >> 16) % 200;
    blk[i] = malloc(sz);
    memset(blk[i], (s >> 8) & 1 ? 0x30 + (s >> 12) % 10 : (int) (0x20 + (s >> 10) % 0x60), sz);
  }
  for (int i = 0; i < 64; ++i) free(blk[(i * 7 + n) % 64]), blk[(i * 7 + n) % 64] = 0;
  struct iwpool *pool = iwpool_create(64);
  struct jbl_node *nd = 0;
  jbn_from_json("{\"k\":[1,2.5,\"x\\u00e9\",99999999999999999999999]}", &nd, pool);
  iwpool_destroy(pool);
  char *ep; (void) strtoll("999999999999999999999999", &ep, 10);
  errno = (n % 3 == 0) ? ERANGE : (n % 3 == 1) ? EINVAL : ENOENT;
}

// ---- ini handler / replace mapper
static struct iwxstr *ini_out;
static int ini_handler(void *user, const char *section, const char *name, const char *value) {
  (void) user;
  if (iwxstr_size(ini_out) < OUT_BUDGET * 2) {
    iwxstr_cat2(ini_out, " ");
    char tmp[16];
    const char *parts[3] = { section, name, value };
    for (int i = 0; i < 3; ++i) {
      const char *s = parts[i] ? parts[i] : "";
      if (!*s) iwxstr_cat2(ini_out, "-");
      for ( ; *s; ++s) { snprintf(tmp, sizeof(tmp), "%02x", (uint8_t) *s); iwxstr_cat2(ini_out, tmp); }
      if (i < 2) iwxstr_cat2(ini_out, "/");
    }
  }
  return strcmp(name ? name : "", "bad") != 0;
}

// modelled ini ops: events as sec/name/val (hex), the handler refuses name "bad" and values starting with '!'
#define INI_EV_BUDGET 64
static int ini_nev;
static FILE *ini_ms;
static int ini_handler2(void *user, const char *section, const char *name, const char *value) {
  (void) user;
  if (ini_nev++ < INI_EV_BUDGET) {
    const char *parts[3] = { section, name, value };
    fputc(' ', ini_ms);
    for (int i = 0; i < 3; ++i) {
      const char *s = parts[i] ? parts[i] : "";
      hx_print(ini_ms, s, strlen(s));
      if (i < 2) fputc('/', ini_ms);
    }
  }
  return !(!strcmp(name ? name : "", "bad") || (value && value[0] == '!'));
}

// reader for `inif`: delivers the words of the op line one by one, each an arbitrary byte string (NULs allowed)
struct fills { char **w; int n; int i; int bad; };
static char* fills_reader(char *str, int num, void *stream) {
  struct fills *f = stream;
  if (f->i >= f->n) return 0;
  size_t l; uint8_t *t = hx_parse(f->w[f->i++], &l);
  if ((int) l + 1 > num) { f->bad = 1; free(t); return 0; }
  memcpy(str, t, l); str[l] = 0;
  free(t);
  return str;
}

static const char* repl_mapper(const char *key, void *op) {
  (void) op;
  size_t l = strlen(key);
  if (l && key[0] == 'n') return 0;           // "no replacement": keeps the key
  if (l && key[0] == 'e') return "";          // erase
  if (l && key[0] == 'k') return "kk-longer-than-the-key-kk";
  return "<R>";
}

int main(int argc, char **argv) {
  (void) argc; (void) argv;
  setvbuf(stdout, 0, _IOLBF, 0);
  signal(SIGALRM, on_alarm);
  char *line = malloc(HX_MAXLINE);
  char **w = malloc(sizeof(char*) * 4096);
  while (fgets(line, HX_MAXLINE, stdin)) {
    int n = hx_words(line, w, 4096);
    if (!n) { printf("bad-op\n"); continue; }
    alarm(6);   // watchdog: no legitimate op needs a second
    // ======================================================== modelled ops
    if (!strcmp(w[0], "perturb") && n == 2) {
      perturb((unsigned) atoi(w[1]));
      printf("perturb ok\n");
    } else if (!strcmp(w[0], "unesc") && n == 3) {
      // unesc <quote byte> <hex>: length pass, then fill pass into an exact-size buffer, as the parser does
      size_t l; char *p = xbuf(w[2], &l, 1); char q = (char) atoi(w[1]);
      JCTX ctx = { 0 };
      const char *end = 0;
      int len = _jbl_unescape_json_string(&ctx, q, p, 0, 0, &end);
      if (ctx.rc) printf("unesc err=%s\n", rcname(ctx.rc));
      else {
        char *d = malloc(len + 1); memset(d, 0xAA, len + 1);
        const char *end2 = 0;
        int len2 = _jbl_unescape_json_string(&ctx, q, p, d, len, &end2);
        printf("unesc len=%d end=%d len2=%d end2=%d rc2=%s out=", len, (int) (end - p), len2, (int) (end2 ? end2 - p : -1), rcname(ctx.rc));
        print_capped(d, len); printf(" guard=%02x\n", (uint8_t) d[len]);
        free(d);
      }
      free(p);
    } else if (!strcmp(w[0], "key") && n == 2) {
      size_t l; char *p = xbuf(w[1], &l, 1);
      struct iwpool *pool = iwpool_create(32);
      JCTX ctx = { .pool = pool };
      const char *key = 0;
      const char *r = _jbl_parse_json_key(&key, p, &ctx);
      if (ctx.rc) printf("key err=%s\n", rcname(ctx.rc));
      else {
        printf("key ret=%d key=", r ? (int) (r - p) : -1);
        if (key) { printf("s"); print_capped(key, strlen(key)); } else printf("none");
        printf("\n");
      }
      iwpool_destroy(pool); free(p);
    } else if (!strcmp(w[0], "ptr") && n == 2) {
      size_t l; char *p = xbuf(w[1], &l, 1);
      JBL_PTR jp = 0;
      iwrc rc = jbl_ptr_alloc(p, &jp);
      if (rc) printf("ptr err=%s\n", rcname(rc));
      else {
        printf("ptr cnt=%d", jp->cnt);
        size_t tot = 0;
        for (int i = 0; i < jp->cnt && tot < OUT_BUDGET; ++i) {
          size_t sl = strlen(jp->n[i]); tot += sl + 2;
          printf(" "); print_capped(jp->n[i], sl);
        }
        printf("\n");
      }
      free(jp); free(p);
    } else if (!strcmp(w[0], "ftoa") && n >= 2) {   // further words (libc texts) are for the model only
      uint64_t bits = strtoull(w[1], 0, 16); double d; memcpy(&d, &bits, 8);
      char *buf = malloc(IWNUMBUF_SIZE); memset(buf, 0xAA, IWNUMBUF_SIZE);
      size_t len = 0;
      iwjson_ftoa((long double) d, buf, &len);
      size_t sl = strnlen(buf, IWNUMBUF_SIZE);
      printf("ftoa %zu ", len); hx_print(stdout, buf, sl); printf("\n");
      free(buf);
    } else if (!strcmp(w[0], "itoa") && n == 3) {
      int64_t v = strtoll(w[1], 0, 10); int max = atoi(w[2]);
      uint8_t *g = malloc(max + 16); memset(g, 0xAA, max + 16);
      int ret = iwitoa(v, (char*) g + 8, max);
      printf("itoa %d ", ret); hx_print(stdout, g, max + 16); printf("\n");
      free(g);
    } else if (!strcmp(w[0], "atoi") && n == 2) {
      size_t l; char *b = xbuf(w[1], &l, 1);
      printf("atoi %" PRId64 "\n", iwatoi(b));
      free(b);
    } else if (!strcmp(w[0], "atoi2") && n == 2) {
      // length-delimited: the buffer has exactly `len` bytes and no terminator
      size_t l; char *b = xbuf(w[1], &l, 0);
      printf("atoi2 %" PRId64 "\n", iwatoi2(b, l));
      free(b);
    } else if (!strcmp(w[0], "afcmp") && n == 3) {
      size_t la, lb; char *a = xbuf(w[1], &la, 0), *b = xbuf(w[2], &lb, 0);
      printf("afcmp %d\n", hx_sgn(iwafcmp(a, (int) la, b, (int) lb)));
      free(a); free(b);
    } else if (!strcmp(w[0], "hex2bin") && n == 3) {
      size_t l; char *b = xbuf(w[1], &l, 0); int max = atoi(w[2]);
      char *out = malloc(max > 0 ? max : 1); memset(out, 0xAA, max > 0 ? max : 1);
      size_t r = iwhex2bin(b, (int) l, out, max);
      printf("hex2bin %zu ", r); hx_print(stdout, out, r <= (size_t) (max > 0 ? max : 1) ? r : 0); printf("\n");
      free(out); free(b);
    } else if (!strcmp(w[0], "bin2hex") && n == 3) {
      size_t l; char *b = xbuf(w[1], &l, 0); int max = atoi(w[2]);
      char *hex = malloc(max > 0 ? max : 1);
      char *r = iwbin2hex(hex, max, (unsigned char*) b, l);
      printf("bin2hex "); if (r) hx_print(stdout, hex, strlen(hex)); else printf("null"); printf("\n");
      free(hex); free(b);
    }
    else if (!strcmp(w[0], "revm") && n >= 4) {
      // revm <nmatches> <text> <instr>... : run the real VM on a program given as tokens (targets are indices):
      // M | C<ch> | A | K<64 hex> | N<64 hex> | S<a>,<b> | J<t> | B | E | V<k>
      int nm = atoi(w[1]); size_t l; char *txt = xbuf(w[2], &l, 1);
      int ni = n - 3, bad = 0;
      cregex_program_t *prog = malloc(sizeof(*prog) + sizeof(cregex_program_instr_t) * ni);   // exact size
      prog->ninstructions = ni;
      for (int i = 0; i < ni; ++i) {
        cregex_program_instr_t *in = &prog->instructions[i];
        memset(in, 0, sizeof(*in));
        const char *tk = w[3 + i];
        switch (tk[0]) {
          case 'M': in->opcode = REGEX_PROGRAM_OPCODE_MATCH; break;
          case 'C': in->opcode = REGEX_PROGRAM_OPCODE_CHARACTER; in->ch = (char) atoi(tk + 1); break;   // byte value 0..255 -> plain char
          case 'A': in->opcode = REGEX_PROGRAM_OPCODE_ANY_CHARACTER; break;
          case 'K': case 'N': {
            in->opcode = tk[0] == 'K' ? REGEX_PROGRAM_OPCODE_CHARACTER_CLASS : REGEX_PROGRAM_OPCODE_CHARACTER_CLASS_NEGATED;
            size_t kl; uint8_t *kb = hx_parse(tk + 1, &kl);
            if (kl != sizeof(cregex_char_class)) bad = 1; else memcpy(in->klass, kb, kl);
            free(kb); break;
          }
          case 'S': { int a = 0, b = 0; if (sscanf(tk + 1, "%d,%d", &a, &b) != 2 || a < 0 || b < 0 || a >= ni || b >= ni) bad = 1;
            in->opcode = REGEX_PROGRAM_OPCODE_SPLIT; in->first = prog->instructions + a; in->second = prog->instructions + b; break; }
          case 'J': { int a = atoi(tk + 1); if (a < 0 || a >= ni) bad = 1;
            in->opcode = REGEX_PROGRAM_OPCODE_JUMP; in->target = prog->instructions + a; break; }
          case 'B': in->opcode = REGEX_PROGRAM_OPCODE_ASSERT_BEGIN; break;
          case 'E': in->opcode = REGEX_PROGRAM_OPCODE_ASSERT_END; break;
          case 'V': in->opcode = REGEX_PROGRAM_OPCODE_SAVE; in->save = atoi(tk + 1); break;
          default: bad = 1;
        }
      }
      if (bad || nm < 0 || nm > 256) printf("revm bad-program\n");
      else {
        const char **mp = malloc(sizeof(char*) * (nm ? nm : 1));
        memset(mp, 0, sizeof(char*) * (nm ? nm : 1));
        int r = cregex_program_run(prog, txt, mp, nm);
        printf("revm %d", r);
        for (int i = 0; i < nm; ++i) printf(" %d", mp[i] ? (int) (mp[i] - txt) : -1);
        printf("\n");
        free(mp);
      }
      free(prog); free(txt);
    }
    // ======================================================== regex front end (modelled: Model/Re.lean)
    else if (!strcmp(w[0], "reparse") && n == 2) {
      // reparse <pattern>: the tree the real parser builds (behind the empty-pattern guard of iwre_create), prefix notation
      size_t l; char *pat = xbuf(w[1], &l, 1);
      cregex_node_t *node = pat[0] ? cregex_parse(pat) : 0;
      if (!node) printf("reparse fail\n");
      else {
        int budget = 3000;
        printf("reparse ok %d", re_size(node));
        re_dump(node, pat, &budget, 0);
        printf("\n");
        cregex_parse_free(node);
      }
      free(pat);
    }
    else if (!strcmp(w[0], "research") && n == 4) {
      // research <nmatches> <pattern> <text>: iwre_create's steps (guard, parse, compile) then cregex_program_run
      int nm = atoi(w[1]); size_t l, l2; char *pat = xbuf(w[2], &l, 1), *txt = xbuf(w[3], &l2, 1);
      cregex_node_t *node = pat[0] ? cregex_parse(pat) : 0;
      cregex_program_t *prog = node ? cregex_compile_node(node) : 0;
      if (!prog || nm < 0 || nm > 256) printf("research fail\n");
      else {
        const char **mp = malloc(sizeof(char*) * (nm ? nm : 1));
        memset(mp, 0, sizeof(char*) * (nm ? nm : 1));
        int r = cregex_program_run(prog, txt, mp, nm);
        printf("research %d", r);
        for (int i = 0; i < nm; ++i) printf(" %d", mp[i] ? (int) (mp[i] - txt) : -1);
        printf("\n");
        free(mp);
      }
      if (prog) cregex_compile_free(prog);
      if (node) cregex_parse_free(node);
      free(pat); free(txt);
    }
    else if (!strcmp(w[0], "recomp") && n == 2) {
      // recomp <pattern>: the program the real parser + compiler produce, as `revm` tokens
      size_t l; char *pat = xbuf(w[1], &l, 1);
      cregex_node_t *node = pat[0] ? cregex_parse(pat) : 0;
      cregex_program_t *prog = node ? cregex_compile_node(node) : 0;
      if (!prog) printf("recomp fail\n");
      else {
        printf("recomp %d", prog->ninstructions);
        for (int i = 0; i < prog->ninstructions && i < 3000; ++i) {
          const cregex_program_instr_t *in = &prog->instructions[i];
          switch (in->opcode) {
            case REGEX_PROGRAM_OPCODE_MATCH: printf(" M"); break;
            case REGEX_PROGRAM_OPCODE_CHARACTER: printf(" C%d", (int) (unsigned char) in->ch); break;
            case REGEX_PROGRAM_OPCODE_ANY_CHARACTER: printf(" A"); break;
            case REGEX_PROGRAM_OPCODE_CHARACTER_CLASS: printf(" K"); hx_print(stdout, in->klass, sizeof(in->klass)); break;
            case REGEX_PROGRAM_OPCODE_CHARACTER_CLASS_NEGATED: printf(" N"); hx_print(stdout, in->klass, sizeof(in->klass)); break;
            case REGEX_PROGRAM_OPCODE_SPLIT: printf(" S%d,%d", (int) (in->first - prog->instructions), (int) (in->second - prog->instructions)); break;
            case REGEX_PROGRAM_OPCODE_JUMP: printf(" J%d", (int) (in->target - prog->instructions)); break;
            case REGEX_PROGRAM_OPCODE_ASSERT_BEGIN: printf(" B"); break;
            case REGEX_PROGRAM_OPCODE_ASSERT_END: printf(" E"); break;
            case REGEX_PROGRAM_OPCODE_SAVE: printf(" V%d", in->save); break;
            default: printf(" ?%d", (int) in->opcode);
          }
        }
        printf("\n");
      }
      if (prog) cregex_compile_free(prog);
      if (node) cregex_parse_free(node);
      free(pat);
    }
    // ======================================================== exploration ops (no model)
    else if ((!strcmp(w[0], "json") || !strcmp(w[0], "js")) && n == 2) {
      size_t l; char *p = xbuf(w[1], &l, 1);
      struct iwpool *pool = iwpool_create(128);
      struct jbl_node *nd = 0;
      iwrc rc = w[0][1] == 's' && w[0][2] == 0 ? jbn_from_js(p, &nd, pool) : jbn_from_json(p, &nd, pool);
      printf("%s %s ", w[0], rcname(rc));
      if (!rc) {
        int budget = 3000; hxj_dump(stdout, nd, &budget);
        // print -> parse -> print must be stable, and the binary form must build
        char *txt = 0;
        if (nd && !jbn_as_json_alloc(nd, 0, &txt) && txt) {
          struct jbl *jbl = 0;
          iwrc rc2 = jbl_from_json(&jbl, txt);
          printf(" | bin=%s", rcname(rc2));
          if (!rc2) jbl_destroy(&jbl);
          free(txt);
        }
      }
      printf("\n");
      iwpool_destroy(pool); free(p);
    } else if ((!strcmp(w[0], "patch") || !strcmp(w[0], "merge")) && n == 3) {
      size_t l1, l2; char *doc = xbuf(w[1], &l1, 1), *pt = xbuf(w[2], &l2, 1);
      struct iwpool *pool = iwpool_create(128);
      struct jbl_node *nd = 0, *pn = 0;
      iwrc rc = jbn_from_json(doc, &nd, pool);
      if (rc || !nd) printf("%s doc-%s\n", w[0], rcname(rc));
      else {
        if (w[0][0] == 'p') {
          rc = jbn_from_json(pt, &pn, pool);
          if (!rc && pn) rc = jbn_patch_auto(nd, pn, pool); else if (!rc) rc = JBL_ERROR_PATCH_INVALID;
        } else rc = jbn_merge_patch_from_json(nd, pt, pool);
        printf("%s %s ", w[0], rcname(rc));
        int budget = 3000; hxj_dump(stdout, nd, &budget);
        // binary variant on a fresh copy of the document
        struct jbl *jbl = 0;
        if (!jbl_from_json(&jbl, doc)) {
          iwrc rc2 = w[0][0] == 'p' ? jbl_patch_from_json(jbl, pt) : jbl_merge_patch(jbl, pt);
          printf(" | bin=%s", rcname(rc2));
          jbl_destroy(&jbl);
        }
        printf("\n");
      }
      iwpool_destroy(pool); free(doc); free(pt);
    } else if (!strcmp(w[0], "at") && n == 3) {
      size_t l1, l2; char *doc = xbuf(w[1], &l1, 1), *pt = xbuf(w[2], &l2, 1);
      struct iwpool *pool = iwpool_create(128);
      struct jbl_node *nd = 0, *res = 0;
      iwrc rc = jbn_from_json(doc, &nd, pool);
      if (rc || !nd) printf("at doc-%s\n", rcname(rc));
      else {
        rc = jbn_at(nd, pt, &res);
        printf("at %s ", rcname(rc));
        if (!rc) { int budget = 1000; hxj_dump(stdout, res, &budget); }
        struct jbl *jbl = 0, *r2 = 0;
        if (!jbl_from_json(&jbl, doc)) {
          iwrc rc2 = pt[0] ? jbl_at(jbl, pt, &r2) : 0;   // the root pointer aliases the source holder (finding F30, C14)
          printf(" | bin=%s", rcname(rc2));
          if (!rc2 && r2) jbl_destroy(&r2);
          jbl_destroy(&jbl);
        }
        printf("\n");
      }
      iwpool_destroy(pool); free(doc); free(pt);
    } else if (!strcmp(w[0], "re") && n == 3) {
      size_t l1, l2; char *pat = xbuf(w[1], &l1, 1), *txt = xbuf(w[2], &l2, 1);
      struct iwre *re = iwre_create(pat);
      if (!re) printf("re nocompile\n");
      else {
        const char *mp[16];
        int m = iwre_match(re, txt, mp, 16);
        printf("re %d", m);
        for (int i = 0; i < 2 * m && i < 16; ++i) printf(" %d", mp[i] ? (int) (mp[i] - txt) : -1);
        printf("\n");
        iwre_destroy(re);
      }
      free(pat); free(txt);
    } else if (!strcmp(w[0], "ini") && n == 2) {
      size_t l; char *p = xbuf(w[1], &l, 1);
      ini_out = iwxstr_create_empty();
      int r = iwini_parse_string(p, ini_handler, 0);
      printf("ini %d%s\n", r, iwxstr_ptr(ini_out));
      iwxstr_destroy(ini_out); ini_out = 0;
      free(p);
    } else if ((!strcmp(w[0], "inis") && n == 2) || (!strcmp(w[0], "inifile") && n == 2) || (!strcmp(w[0], "inif") && n >= 1)) {
      // modelled (Model/Ini.lean): inis <text> = iwini_parse_string; inif <fill>... = iwini_parse_stream with a reader
      // that delivers the fills; inifile <bytes> = iwini_parse_file on a stream with that content (NULs allowed)
      char *mem = 0; size_t msz = 0;
      ini_ms = open_memstream(&mem, &msz);
      ini_nev = 0;
      int r; int bad = 0;
      if (w[0][3] == 's') {
        size_t l; char *p = xbuf(w[1], &l, 1);
        r = iwini_parse_string(p, ini_handler2, 0);
        free(p);
      } else if (w[0][4] == 'i') {
        size_t l; char *p = xbuf(w[1], &l, 0);
        FILE *f = l ? fmemopen(p, l, "r") : fopen("/dev/null", "r");
        r = f ? iwini_parse_file(f, ini_handler2, 0) : -1;
        if (f) fclose(f);
        free(p);
      } else {
        struct fills f = { w + 1, n - 1, 0, 0 };
        r = iwini_parse_stream(fills_reader, &f, ini_handler2, 0);
        bad = f.bad;
      }
      fclose(ini_ms); ini_ms = 0;
      if (bad) printf("%s bad-fill\n", w[0]); else printf("%s %d %d%s\n", w[0], r, ini_nev, mem);
      free(mem);
    } else if (!strcmp(w[0], "replm") && n >= 3) {
      // modelled (Model/Repl.lean): replm <datalen> <data> <key>... on exact-size NUL-terminated blocks
      size_t l; char *p = xbuf(w[2], &l, 1); int dl = atoi(w[1]);
      const char *keys[64]; char *kb[64]; int nk = 0;
      for (int i = 3; i < n && nk < 63; ++i) { size_t kl; kb[nk] = xbuf(w[i], &kl, 1); keys[nk] = kb[nk]; nk++; }
      keys[nk] = 0;
      if (dl < 0 || (size_t) dl > l) printf("replm bad-len\n");
      else {
        struct iwxstr *res = 0;
        iwrc rc = iwu_replace(&res, p, dl, keys, (l % 2) ? nk : -1, repl_mapper, 0);
        printf("replm %s ", rcname(rc));
        if (res) { print_capped(iwxstr_ptr(res), iwxstr_size(res)); iwxstr_destroy(res); } else printf("null");
        printf("\n");
      }
      for (int i = 0; i < nk; ++i) free(kb[i]);
      free(p);
    } else if (!strcmp(w[0], "repl") && n >= 3) {
      size_t l; char *p = xbuf(w[1], &l, 1);
      const char *keys[64]; char *kb[64]; int nk = 0;
      for (int i = 2; i < n && nk < 63; ++i) { size_t kl; kb[nk] = xbuf(w[i], &kl, 1); keys[nk] = kb[nk]; nk++; }
      keys[nk] = 0;
      struct iwxstr *res = 0;
      iwrc rc = iwu_replace(&res, p, (int) l, keys, (l % 2) ? nk : -1, repl_mapper, 0);
      printf("repl %s ", rcname(rc));
      if (res) { print_capped(iwxstr_ptr(res), iwxstr_size(res)); iwxstr_destroy(res); } else printf("null");
      printf("\n");
      for (int i = 0; i < nk; ++i) free(kb[i]);
      free(p);
    } else if (!strcmp(w[0], "split") && n == 4) {
      size_t l, l2; char *p = xbuf(w[1], &l, 1), *sc = xbuf(w[2], &l2, 1);
      struct iwpool *pool = iwpool_create(64);
      const char **r = iwpool_split_string(pool, p, sc, atoi(w[3]) != 0);
      printf("split");
      size_t tot = 0;
      for (int i = 0; r && r[i] && tot < OUT_BUDGET; ++i) { size_t sl = strlen(r[i]); tot += sl + 2; printf(" "); print_capped(r[i], sl); }
      printf("\n");
      iwpool_destroy(pool); free(p); free(sc);
    } else if (!strcmp(w[0], "xprintf") && n == 3) {
      size_t l; char *p = xbuf(w[1], &l, 1); int mode = atoi(w[2]);
      struct iwxstr *x = iwxstr_create(mode % 2 ? 1 : 0);
      iwrc rc = 0;
      if (mode & 2) rc = iwxstr_cat2(x, "head:");
      if (!rc) rc = (mode & 4) ? iwxstr_printf(x, "%s|%d|%5.2f", p, (int) l, 0.5 * (double) l) : iwxstr_printf(x, "%s", p);
      if (!rc && (mode & 8)) rc = iwxstr_insert_printf(x, iwxstr_size(x) / 2, "<%s>", p);
      struct iwpool *pool = iwpool_create(16);
      char *pp = iwpool_printf(pool, "%s#%zu", p, l);
      printf("xprintf %s %zu ", rcname(rc), iwxstr_size(x)); print_capped(iwxstr_ptr(x), iwxstr_size(x));
      printf(" "); print_capped(pp, pp ? strlen(pp) : 0); printf("\n");
      iwpool_destroy(pool); iwxstr_destroy(x); free(p);
    } else if (!strcmp(w[0], "ftoa2") && n == 2) {
      // iwftoa into an exact IWNUMBUF_SIZE heap block (exploration: the length of its output depends on the value)
      uint64_t bits = strtoull(w[1], 0, 16); double d; memcpy(&d, &bits, 8);
      char *buf = malloc(IWNUMBUF_SIZE); memset(buf, 0xAA, IWNUMBUF_SIZE);
      iwftoa((long double) d, buf);
      size_t sl = strnlen(buf, IWNUMBUF_SIZE);
      printf("ftoa2 %zu ", sl); hx_print(stdout, buf, sl); printf("\n");
      free(buf);
    } else if (!strcmp(w[0], "strtod") && n == 2) {
      size_t l; char *p = xbuf(w[1], &l, 1);
      char *end = 0;
      double d = iwstrtod(p, &end);
      uint64_t bits; memcpy(&bits, &d, 8);
      if (d != d) bits = 0x7ff8000000000000ULL;
      printf("strtod %016" PRIx64 " %d\n", bits, (int) (end - p));
      free(p);
    } else if (!strcmp(w[0], "strtoll") && n == 3) {
      size_t l; char *p = xbuf(w[1], &l, 1); int base = atoi(w[2]);
      iwrc r1 = 0, r2 = 0, r3 = 0;
      long long a = iw_strtoll(p, base, &r1);
      long b = iw_strtol(p, base, &r2);
      double d = iw_strtod(p, &r3);
      uint64_t bits; memcpy(&bits, &d, 8);
      if (d != d) bits = 0x7ff8000000000000ULL;
      printf("strtoll %s %lld %s %ld %s %016" PRIx64 "\n", rcname(r1), a, rcname(r2), b, rcname(r3), bits);
      free(p);
    } else printf("bad-op\n");
    alarm(0);
  }
  fflush(stdout);
  return 0;
}
