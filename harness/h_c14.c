// C14 harness: tree <-> binary conversions, clones, printers and JSON-pointer look-ups of the real code.
// Stateful line protocol, one result line per op line:
//   doc <wire...>      current document := tree built from the wire form            -> "doc tree <wire>"
//   fromnode           tree -> binary through jbl_from_node (containers only)       -> "<rc> bin <hex>" | "<rc> scalar <tok>"
//   fill               tree -> binary through jbl_create_empty_object + jbl_fill_from_node
//   tonode <0|1>       binary -> tree through jbl_to_node(clone_strings)            -> "<rc> tree <wire>"
//   clone              jbn_clone / jbl_clone of the current form; the source is destroyed afterwards
//   poolclone          jbl_clone_into_pool; source destroyed afterwards
//   rebuf              jbl_as_buf -> private copy -> jbl_from_buf_keep; source destroyed afterwards
//   print <flags>      jbn_as_json / jbl_as_json of the current form                -> "print <rc> <hex text>"
//   at <hex path>      jbn_at / jbl_at on the current form                          -> "at <rc> <wire of the result>"
//   at2 <hex path>     jbl_ptr_alloc + jbn_at2 / jbl_at2 / _jbl_at                  -> "at2 <rc> <wire> <found> <wire>"
//   ptr <hex path>     jbl_ptr_alloc                                                -> "ptr <rc> <cnt> <hex seg>..."
//   json <hex text>    jbn_from_json -> current tree;  jsonb <hex text>: jbl_from_json -> current binary
#include "hx_json.h"
#include "iwjson_internal.h"
#include "iwxstr.h"

#define MAXW (1 << 18)
#define MAXLIVE 64

enum { K_NONE, K_TREE, K_BIN };
static int kind = K_NONE;
static struct jbl_node *tree;
static struct jbl *bin;
static struct iwpool *tree_pool;     // pool owning `tree`
// objects that must stay alive as long as the current form may point into them
static struct iwpool *live_pools[MAXLIVE]; static int n_pools;
static struct jbl *live_jbls[MAXLIVE]; static int n_jbls;
static void *live_bufs[MAXLIVE]; static int n_bufs;

// binary form built member by member through the setter API (jbl_create_empty_* + jbl_set_*): the holder is left as the
// setters leave it (header not flushed). Returns 1 when the tree cannot go through the setters (NUL inside a string or key).
static int setbuild(struct jbl_node *n, struct jbl **out, iwrc *rcp) {
  *rcp = n->type == JBV_OBJECT ? jbl_create_empty_object(out) : jbl_create_empty_array(out);
  if (*rcp) return 0;
  for (struct jbl_node *c = n->child; c && !*rcp; c = c->next) {
    char *key = 0, *sv = 0;
    if (n->type == JBV_OBJECT) {
      if (memchr(c->key, 0, c->klidx)) return 1;
      key = strndup(c->key, c->klidx);
    }
    switch (c->type) {
      case JBV_I64: *rcp = jbl_set_int64(*out, key, c->vi64); break;
      case JBV_F64: *rcp = jbl_set_f64(*out, key, c->vf64); break;
      case JBV_BOOL: *rcp = jbl_set_bool(*out, key, c->vbool); break;
      case JBV_NULL: *rcp = jbl_set_null(*out, key); break;
      case JBV_STR:
        if (memchr(c->vptr, 0, c->vsize)) { free(key); return 1; }
        sv = strndup(c->vptr, c->vsize); *rcp = jbl_set_string(*out, key, sv); free(sv); break;
      case JBV_OBJECT: case JBV_ARRAY: {
        struct jbl *nested = 0;
        int bad = setbuild(c, &nested, rcp);
        if (!bad && !*rcp) *rcp = jbl_set_nested(*out, key, nested);
        if (nested) jbl_destroy(&nested);
        if (bad) { free(key); return 1; }
        break;
      }
      default: free(key); return 1;
    }
    free(key);
  }
  return 0;
}

static void drop_all(void) {
  for (int i = 0; i < n_jbls; ++i) jbl_destroy(&live_jbls[i]);
  for (int i = 0; i < n_pools; ++i) iwpool_destroy(live_pools[i]);
  for (int i = 0; i < n_bufs; ++i) free(live_bufs[i]);
  n_pools = n_jbls = n_bufs = 0;
  if (bin) jbl_destroy(&bin);
  if (tree_pool) iwpool_destroy(tree_pool);
  tree_pool = 0; tree = 0; bin = 0; kind = K_NONE;
}

static const char* rcname(iwrc rc) {
  static char buf[32];
  switch (rc) {
    case 0: return "ok";
    case JBL_ERROR_PATH_NOTFOUND: return "notfound";
    case JBL_ERROR_JSON_POINTER: return "badptr";
    case JBL_ERROR_INVALID: return "invalid";
    case JBL_ERROR_INVALID_BUFFER: return "invalid-buffer";
    case JBL_ERROR_CREATION: return "creation";
    case JBL_ERROR_MAX_NESTING_LEVEL_EXCEEDED: return "nesting";
    case JBL_ERROR_PARSE_JSON: return "parse";
    case JBL_ERROR_PARSE_INVALID_UTF8: return "utf8";
    case IW_ERROR_INVALID_ARGS: return "invalid-args";
    default: snprintf(buf, sizeof(buf), "rc%" PRIu64, (uint64_t) rc); return buf;
  }
}


// Dump a tree in wire form; member keys are taken with their cached length `klidx` (keys of a tree made by
// jbl_to_node(clone_strings=false) point into the binary buffer and are not NUL terminated).
static int dump_tree(const struct jbl_node *nd, int *budget) {
  if (!nd) { fputs("NULL", stdout); return 0; }
  if (--(*budget) < 0) { fputs(" BUDGET", stdout); return -1; }
  if (nd->type == JBV_ARRAY || nd->type == JBV_OBJECT) {
    int cnt = 0;
    for (const struct jbl_node *c = nd->child; c && cnt < 1000000; c = c->next) cnt++;
    printf("%c%d", nd->type == JBV_ARRAY ? 'a' : 'o', cnt);
    int i = 0;
    for (const struct jbl_node *c = nd->child; c && i < cnt; c = c->next, ++i) {
      fputc(' ', stdout);
      if (nd->type == JBV_OBJECT) { fputc('k', stdout); hx_print(stdout, c->key, c->key ? (size_t) c->klidx : 0); fputc(' ', stdout); }
      else if (c->klidx != i) printf("!klidx%d ", c->klidx);
      if (dump_tree(c, budget) < 0) return -1;
    }
    return 0;
  }
  return hxj_dump(stdout, nd, budget);
}

// wire token of a scalar holder, through the public getters
static void dump_scalar(struct jbl *j) {
  switch (jbl_type(j)) {
    case JBV_NULL: printf("n"); break;
    case JBV_BOOL: printf(jbl_get_i32(j) ? "t" : "f"); break;
    case JBV_I64: printf("i%" PRId64, jbl_get_i64(j)); break;
    case JBV_F64: { double d = jbl_get_f64(j); uint64_t b; memcpy(&b, &d, 8); printf("d%016" PRIx64, b); break; }
    case JBV_STR: { const char *s = jbl_get_str(j); printf("s"); hx_print(stdout, s, s ? strlen(s) : 0); break; }
    default: printf("?type%d", (int) jbl_type(j)); break;
  }
}

// value of a binary holder as wire (containers are converted with jbl_to_node into a scratch pool)
static void dump_jbl_value(struct jbl *j) {
  jbl_type_t t = jbl_type(j);
  if (t == JBV_OBJECT || t == JBV_ARRAY) {
    struct iwpool *p = iwpool_create_empty();
    struct jbl_node *n = 0;
    iwrc rc = _jbl_node_from_binn(&j->bn, &n, true, p);
    if (rc) printf("tonode-%s", rcname(rc)); else { int budget = 200000; dump_tree(n, &budget); }
    iwpool_destroy(p);
  } else dump_scalar(j);
}

static void dump_cur(void) {
  if (kind == K_TREE) { int budget = 200000; printf("tree "); dump_tree(tree, &budget); }
  else if (kind == K_BIN) {
    jbl_type_t t = jbl_type(bin);
    if (t == JBV_OBJECT || t == JBV_ARRAY) {
      void *buf; size_t sz;
      iwrc rc = jbl_as_buf(bin, &buf, &sz);
      if (rc) printf("asbuf-%s", rcname(rc)); else { printf("bin "); hx_print(stdout, buf, sz); }
    } else { printf("scalar "); dump_scalar(bin); }
  } else printf("none");
}

int main(int argc, char **argv) {
  setvbuf(stdout, 0, _IOLBF, 0);
  char *line = malloc(HX_MAXLINE);
  char **w = malloc(sizeof(char*) * MAXW);
  iwrc rc = jbl_init();
  if (rc) { printf("init-failed\n"); return 2; }
  while (fgets(line, HX_MAXLINE, stdin)) {
    int n = hx_words(line, w, MAXW);
    if (!n) { printf("bad-op\n"); continue; }
    if (!strcmp(w[0], "doc") && n >= 2) {
      drop_all();
      tree_pool = iwpool_create_empty();
      int pos = 1;
      tree = hxj_build(w, n, &pos, tree_pool, 0);
      if (!tree || pos != n) { printf("doc bad\n"); drop_all(); continue; }
      kind = K_TREE;
      printf("doc "); dump_cur(); printf("\n");
    } else if ((!strcmp(w[0], "fromnode") || !strcmp(w[0], "fill") || !strcmp(w[0], "fillclone")) && n == 1) {
      if (kind != K_TREE) { printf("%s wrong-form\n", w[0]); continue; }
      struct jbl *j = 0;
      rc = 0;
      if (w[0][1] == 'r') rc = jbl_from_node(&j, tree);
      else if (!strcmp(w[0], "fillclone") && tree->type >= JBV_OBJECT) {
        if (setbuild(tree, &j, &rc)) { if (j) jbl_destroy(&j); j = 0; rc = 0; }   // not expressible through the setters
      }
      if (!j && !rc && w[0][1] != 'r') { rc = jbl_create_empty_object(&j); if (!rc) { rc = jbl_fill_from_node(j, tree); if (rc) jbl_destroy(&j); } }
      if (rc) { printf("%s %s\n", w[0], rcname(rc)); if (j) jbl_destroy(&j); continue; }
      if (!strcmp(w[0], "fillclone") && jbl_type(j) >= JBV_OBJECT && n_pools < MAXLIVE) {
        // the freshly built holder has not been read yet (its header is not flushed): clone it into a pool right away,
        // then go on using the pool - the clone must keep its bytes
        struct iwpool *p = iwpool_create_empty();
        struct jbl *c = 0;
        rc = jbl_clone_into_pool(j, &c, p);
        if (rc) { printf("fillclone %s\n", rcname(rc)); iwpool_destroy(p); jbl_destroy(&j); continue; }
        for (int i = 0; i < 6; ++i) { void *x = iwpool_alloc(8 + 24 * i, p); if (x) memset(x, 0xAB, 8 + 24 * i); }
        jbl_destroy(&j);
        live_pools[n_pools++] = p;
        struct jbl *h = 0;
        rc = jbl_from_buf_keep(&h, c->bn.ptr, c->bn.size, true);
        if (rc) { printf("fillclone rebuf-%s\n", rcname(rc)); kind = K_NONE; continue; }
        j = h;
      }
      // the binary form must not depend on the tree: drop the tree now
      iwpool_destroy(tree_pool); tree_pool = 0; tree = 0;
      bin = j; kind = K_BIN;
      printf("%s ok ", w[0]); dump_cur(); printf("\n");
    } else if (!strcmp(w[0], "tonode") && n == 2) {
      if (kind != K_BIN) { printf("tonode wrong-form\n"); continue; }
      int cs = atoi(w[1]);
      struct iwpool *p = iwpool_create_empty();
      struct jbl_node *nd = 0;
      rc = jbl_to_node(bin, &nd, cs, p);
      if (rc) { printf("tonode %s\n", rcname(rc)); iwpool_destroy(p); continue; }
      if (!nd) { printf("tonode ok NULL\n"); iwpool_destroy(p); continue; }
      if (cs) jbl_destroy(&bin);                                   // independent copy: source may go
      else if (n_jbls < MAXLIVE) { live_jbls[n_jbls++] = bin; bin = 0; }  // shares the buffer: keep it
      else { printf("tonode too-many\n"); iwpool_destroy(p); continue; }
      bin = 0; tree = nd; tree_pool = p; kind = K_TREE;
      printf("tonode ok "); dump_cur(); printf("\n");
    } else if (!strcmp(w[0], "clone") && n == 1) {
      if (kind == K_TREE) {
        struct iwpool *p = iwpool_create_empty();
        struct jbl_node *nd = 0;
        rc = jbn_clone(tree, &nd, p);
        if (rc) { printf("clone %s\n", rcname(rc)); iwpool_destroy(p); continue; }
        iwpool_destroy(tree_pool);   // independence: the source is gone (ASan sees any sharing)
        // strings of a tree made by tonode 0 live in a kept buffer: release those too
        for (int i = 0; i < n_jbls; ++i) jbl_destroy(&live_jbls[i]);
        for (int i = 0; i < n_bufs; ++i) free(live_bufs[i]);
        n_jbls = n_bufs = 0;
        tree_pool = p; tree = nd;
        printf("clone ok "); dump_cur(); printf("\n");
      } else if (kind == K_BIN && jbl_type(bin) < JBV_OBJECT) {
        printf("clone scalar-holder\n");
      } else if (kind == K_BIN) {
        struct jbl *j = 0;
        rc = jbl_clone(bin, &j);
        if (rc) { printf("clone %s\n", rcname(rc)); if (j) jbl_destroy(&j); continue; }
        jbl_destroy(&bin);
        for (int i = 0; i < n_bufs; ++i) free(live_bufs[i]);
        n_bufs = 0;
        bin = j;
        printf("clone ok "); dump_cur(); printf("\n");
      } else printf("clone wrong-form\n");
    } else if (!strcmp(w[0], "poolclone") && n == 1) {
      if (kind != K_BIN || jbl_type(bin) < JBV_OBJECT) { printf("poolclone wrong-form\n"); continue; }
      struct iwpool *p = iwpool_create_empty();
      struct jbl *j = 0;
      rc = jbl_clone_into_pool(bin, &j, p);
      if (rc || n_pools >= MAXLIVE) { printf("poolclone %s\n", rcname(rc)); iwpool_destroy(p); continue; }
      jbl_destroy(&bin);
      for (int i = 0; i < n_bufs; ++i) free(live_bufs[i]);
      n_bufs = 0;
      live_pools[n_pools++] = p;
      // a pool-owned holder must not be passed to jbl_destroy: wrap it into a heap holder sharing the buffer
      struct jbl *h = 0;
      rc = jbl_from_buf_keep(&h, j->bn.ptr, j->bn.size, true);
      if (rc) { printf("poolclone rebuf-%s\n", rcname(rc)); kind = K_NONE; continue; }
      bin = h;
      printf("poolclone ok "); dump_cur(); printf("\n");
    } else if (!strcmp(w[0], "rebuf") && n == 1) {
      if (kind != K_BIN || jbl_type(bin) < JBV_OBJECT) { printf("rebuf wrong-form\n"); continue; }
      void *buf; size_t sz;
      rc = jbl_as_buf(bin, &buf, &sz);
      if (rc || n_bufs >= MAXLIVE) { printf("rebuf %s\n", rcname(rc)); continue; }
      void *cp = malloc(sz ? sz : 1); memcpy(cp, buf, sz);
      struct jbl *h = 0;
      rc = jbl_from_buf_keep(&h, cp, sz, true);
      if (rc) { printf("rebuf %s\n", rcname(rc)); free(cp); continue; }
      jbl_destroy(&bin);
      live_bufs[n_bufs++] = cp;
      bin = h;
      printf("rebuf ok "); dump_cur(); printf("\n");
    } else if (!strcmp(w[0], "print") && n == 2) {
      jbl_print_flags_t pf = (jbl_print_flags_t) atoi(w[1]);
      struct iwxstr *x = iwxstr_create_empty();
      if (kind == K_TREE) rc = jbn_as_json(tree, jbl_xstr_json_printer, x, pf);
      else if (kind == K_BIN) rc = jbl_as_json(bin, jbl_xstr_json_printer, x, pf);
      else { printf("print wrong-form\n"); iwxstr_destroy(x); continue; }
      if (!rc) { printf("print ok "); hx_print(stdout, iwxstr_ptr(x), iwxstr_size(x)); printf("\n"); }
      else printf("print error -\n");
      iwxstr_destroy(x);
    } else if (!strcmp(w[0], "at") && n == 2) {
      size_t l; char *path = (char*) hx_parse(w[1], &l);
      if (kind == K_TREE) {
        struct jbl_node *r = 0;
        rc = jbn_at(tree, path, &r);
        printf("at %s ", rcname(rc));
        if (!rc) { int budget = 200000; dump_tree(r, &budget); } else printf(r ? "nonnull" : "-");
        printf("\n");
      } else if (kind == K_BIN) {
        struct jbl *r = 0;
        rc = jbl_at(bin, path, &r);
        printf("at %s ", rcname(rc));
        if (!rc && r) dump_jbl_value(r); else printf(r ? "nonnull" : (rc ? "-" : "NULL"));
        printf("\n");
        if (r) jbl_destroy(&r);
      } else printf("at wrong-form\n");
      free(path);
    } else if (!strcmp(w[0], "at2") && n == 2) {
      size_t l; char *path = (char*) hx_parse(w[1], &l);
      struct jbl_ptr *jp = 0;
      rc = jbl_ptr_alloc(path, &jp);
      if (rc) { printf("at2 %s\n", rcname(rc)); free(path); continue; }
      if (kind == K_TREE) {
        struct jbl_node *r = 0;
        rc = jbn_at2(tree, jp, &r);
        printf("at2 %s ", rcname(rc));
        if (!rc) { int budget = 200000; dump_tree(r, &budget); } else printf("-");
        printf("\n");
      } else if (kind == K_BIN) {
        struct jbl *r = 0;
        rc = jbl_at2(bin, jp, &r);
        printf("at2 %s ", rcname(rc));
        if (!rc && r) dump_jbl_value(r); else printf("-");
        if (r) jbl_destroy(&r);
        struct jbl holder; memset(&holder, 0, sizeof(holder));
        bool found = _jbl_at(bin, jp, &holder);
        printf(" %d ", found ? 1 : 0);
        if (found) dump_jbl_value(&holder); else printf("-");
        printf("\n");
      } else printf("at2 wrong-form\n");
      free(jp); free(path);
    } else if (!strcmp(w[0], "ptr") && n == 2) {
      size_t l; char *path = (char*) hx_parse(w[1], &l);
      struct jbl_ptr *jp = 0;
      rc = jbl_ptr_alloc(path, &jp);
      printf("ptr %s", rcname(rc));
      if (!rc) { printf(" %d", jp->cnt); for (int i = 0; i < jp->cnt; ++i) { printf(" "); hx_print(stdout, jp->n[i], strlen(jp->n[i])); } }
      printf("\n");
      free(jp); free(path);
    } else if ((!strcmp(w[0], "json") || !strcmp(w[0], "jsonb")) && n == 2) {
      size_t l; char *text = (char*) hx_parse(w[1], &l);
      drop_all();
      if (w[0][4] == 0) {
        tree_pool = iwpool_create_empty();
        rc = jbn_from_json(text, &tree, tree_pool);
        if (rc) { printf("json %s\n", rcname(rc)); drop_all(); }
        else { kind = K_TREE; printf("json ok "); dump_cur(); printf("\n"); }
      } else {
        rc = jbl_from_json(&bin, text);
        if (rc) { printf("jsonb %s\n", rcname(rc)); drop_all(); }
        else { kind = K_BIN; printf("jsonb ok "); dump_cur(); printf("\n"); }
      }
      free(text);
    } else printf("bad-op\n");
  }
  drop_all();
  fflush(stdout);
  return 0;
}
