// C19 harness: number codecs and key comparators of the real code, one result line per op line.
#include "iwkv.c"   // static comparators, _lx_sblk_cmp_key (library objects iwkv.o is left out at link time)
#include "hx.h"

static IWKV kv;
static IWDB dbs[6];   // index = mode*2 + compound ; mode: 0 plain 1 vnum 2 real

static int mode_of(const char *s) { return !strcmp(s, "vnum") ? 1 : !strcmp(s, "real") ? 2 : 0; }
static iwdb_flags_t flags_of(int mode, int comp) {
  return (mode == 1 ? IWDB_VNUM64_KEYS : mode == 2 ? IWDB_REALNUM_KEYS : 0) | (comp ? IWDB_COMPOUND_KEYS : 0);
}
static uint64_t vnum_of(const uint8_t *b) { int64_t n; IW_READVNUMBUF64_2(b, n); return (uint64_t) n; }

int main(int argc, char **argv) {
  setvbuf(stdout, 0, _IOLBF, 0);  // never lose completed lines when a sanitizer aborts
  char *line = malloc(HX_MAXLINE), *w[16];
  IWKV_OPTS opts = { .path = argv[1], .oflags = IWKV_TRUNC };
  if (iwkv_open(&opts, &kv)) { printf("open-failed\n"); return 2; }
  for (int m = 0; m < 3; ++m) for (int c = 0; c < 2; ++c)
    if (iwkv_db(kv, 1 + m * 2 + c, flags_of(m, c), &dbs[m * 2 + c])) { printf("db-failed\n"); return 2; }

  while (fgets(line, HX_MAXLINE, stdin)) {
    int n = hx_words(line, w, 16);
    if (!n) { printf("bad-op\n"); continue; }
    if (!strcmp(w[0], "vnum") && n == 2) {
      uint64_t v = strtoull(w[1], 0, 10);
      uint8_t buf[IW_VNUMBUFSZ + 6]; unsigned len;
      IW_SETVNUMBUF64(len, buf, v);
      int sz = IW_VNUMSIZE(v);
      if (!len) printf("vnum overflow %d\n", sz);
      else { uint64_t d; int step; IW_READVNUMBUF64(buf, d, step);
        printf("vnum "); hx_print(stdout, buf, len); printf(" %d %" PRIu64 " %d\n", sz, d, step); }
    } else if (!strcmp(w[0], "vdec") && n == 2) {
      size_t l; uint8_t *b = hx_parse(w[1], &l);
      // the macro has no length argument: only call it when a terminating (non-negative) byte exists
      int term = 0; for (size_t i = 0; i < l; ++i) if (b[i] < 128) { term = 1; break; }
      if (!term) printf("vdec none\n");
      else { uint64_t v; int step; IW_READVNUMBUF64(b, v, step); printf("vdec %" PRIu64 " %d\n", v, step); }
      free(b);
    } else if (!strcmp(w[0], "itoa") && n == 3) {
      int64_t v = strtoll(w[1], 0, 10); int max = atoi(w[2]);
      // guarded buffer lives inside one heap block so that a stray store is observed, not fatal
      uint8_t *g = malloc(max + 16); memset(g, 0xAA, max + 16);
      int ret = iwitoa(v, (char*) g + 8, max);
      printf("itoa %d ", ret); hx_print(stdout, g, max + 16); printf("\n");
      free(g);
    } else if (!strcmp(w[0], "atoi") && n == 2) {
      size_t l; uint8_t *b = hx_parse(w[1], &l);
      int64_t a = iwatoi((char*) b), a2 = iwatoi2((char*) b, l);
      if (a == a2) printf("atoi %" PRId64 "\n", a); else printf("atoi %" PRId64 " atoi2=%" PRId64 "\n", a, a2);
      free(b);
    } else if (!strcmp(w[0], "bin2hex") && n == 2) {
      size_t l; uint8_t *b = hx_parse(w[1], &l);
      char *hex = malloc(l * 2 + 1);
      char *r = iwbin2hex(hex, l * 2 + 1, b, l);
      printf("bin2hex "); if (r) hx_print(stdout, hex, strlen(hex)); else printf("null"); printf("\n");
      free(hex); free(b);
    } else if (!strcmp(w[0], "hex2bin") && n == 3) {
      size_t l; uint8_t *b = hx_parse(w[1], &l); int max = atoi(w[2]);
      char *out = malloc(max + 1);
      size_t r = iwhex2bin((char*) b, (int) l, out, max);
      printf("hex2bin "); hx_print(stdout, out, r); printf("\n");
      free(out); free(b);
    } else if (!strcmp(w[0], "afcmp") && n == 3) {
      size_t la, lb; uint8_t *a = hx_parse(w[1], &la), *b = hx_parse(w[2], &lb);
      printf("afcmp %d\n", hx_sgn(iwafcmp((char*) a, (int) la, (char*) b, (int) lb)));
      free(a); free(b);
    } else if (!strcmp(w[0], "cmp") && n == 6) {
      int m = mode_of(w[1]), c = atoi(w[2]);
      size_t l1, lk; uint8_t *v1 = hx_parse(w[3], &l1), *k = hx_parse(w[4], &lk);
      struct iwkv_val key = { .data = k, .size = lk, .compound = strtoll(w[5], 0, 10) };
      int p = _cmp_keys_prefix(flags_of(m, c), v1, (int) l1, &key);
      int f = _cmp_keys(flags_of(m, c), v1, (int) l1, &key);
      printf("cmp %d %d\n", hx_sgn(p), hx_sgn(f));
      free(v1); free(k);
    } else if (!strcmp(w[0], "lxcmp") && n == 7) {
      // store one key, then compare a lookup key against the node through the real cached prefix
      int m = mode_of(w[1]), c = atoi(w[2]);
      IWDB db = dbs[m * 2 + c];
      size_t ls, lk; uint8_t *sk = hx_parse(w[3], &ls), *k = hx_parse(w[5], &lk);
      uint64_t sn = 0, kn = 0;
      struct iwkv_val skey = { .data = sk, .size = ls, .compound = strtoll(w[4], 0, 10) };
      struct iwkv_val key = { .data = k, .size = lk, .compound = strtoll(w[6], 0, 10) };
      if (m == 1) { sn = vnum_of(sk); kn = vnum_of(k); skey.data = &sn; skey.size = 8; key.data = &kn; key.size = 8; }
      struct iwkv_val val = { .data = "v", .size = 1 };
      iwrc rc = iwkv_put(db, &skey, &val, 0);
      if (rc) { printf("lxcmp put-rc=%" PRIu64 "\n", rc); }
      else {
        struct iwkv_val ekey; uint8_t nbuf[IW_VNUMBUFSZ];
        rc = _to_effective_key(db, &key, &ekey, nbuf);
        struct iwlctx lx = { .db = db, .key = &ekey, .nlvl = -1 };
        struct sblk *d = 0, *s = 0; int res = 0;
        if (!rc) rc = _sblk_at(&lx, db->addr, 0, &d);
        if (!rc) rc = _sblk_at(&lx, BLK2ADDR(d->n[0]), 0, &s);
        if (!rc) rc = _lx_sblk_cmp_key(&lx, s, &res);
        if (rc) printf("lxcmp rc=%" PRIu64 "\n", rc); else printf("lxcmp %d\n", hx_sgn(res));
        iwkv_del(db, &skey, 0);
      }
      free(sk); free(k);
    } else if (!strcmp(w[0], "lxcmp2") && n == 9) {
      // two keys in one node; the node's cached first key is refreshed by deleting one of them (_sblk_rmkv), then a lookup
      // key is compared against the node: once with the first stored key deleted, once with the second
      int m = mode_of(w[1]), c = atoi(w[2]);
      IWDB db = dbs[m * 2 + c];
      size_t l1, l2, lk; uint8_t *s1 = hx_parse(w[3], &l1), *s2 = hx_parse(w[5], &l2), *k = hx_parse(w[7], &lk);
      uint64_t n1 = 0, n2 = 0, kn = 0;
      struct iwkv_val key1 = { .data = s1, .size = l1, .compound = strtoll(w[4], 0, 10) };
      struct iwkv_val key2 = { .data = s2, .size = l2, .compound = strtoll(w[6], 0, 10) };
      struct iwkv_val key = { .data = k, .size = lk, .compound = strtoll(w[8], 0, 10) };
      if (m == 1) { n1 = vnum_of(s1); n2 = vnum_of(s2); kn = vnum_of(k); key1.data = &n1; key2.data = &n2; key.data = &kn; key1.size = key2.size = key.size = 8; }
      struct iwkv_val val = { .data = "v", .size = 1 };
      printf("lxcmp2");
      for (int round = 0; round < 2; ++round) {
        iwrc rc = iwkv_put(db, &key1, &val, 0);
        if (!rc) rc = iwkv_put(db, &key2, &val, 0);
        if (!rc) rc = iwkv_del(db, round ? &key2 : &key1, 0);
        if (rc) { printf(" rc=%" PRIu64, rc); }
        else {
          struct iwkv_val ekey; uint8_t nbuf[IW_VNUMBUFSZ];
          rc = _to_effective_key(db, &key, &ekey, nbuf);
          struct iwlctx lx = { .db = db, .key = &ekey, .nlvl = -1 };
          struct sblk *d = 0, *s = 0; int res = 0;
          if (!rc) rc = _sblk_at(&lx, db->addr, 0, &d);
          if (!rc && !d->n[0]) printf(" same");
          else {
            if (!rc) rc = _sblk_at(&lx, BLK2ADDR(d->n[0]), 0, &s);
            if (!rc) rc = _lx_sblk_cmp_key(&lx, s, &res);
            if (rc) printf(" rc=%" PRIu64, rc); else printf(" %d", hx_sgn(res));
          }
        }
        iwkv_del(db, &key1, 0); iwkv_del(db, &key2, 0);
      }
      printf("\n");
      free(s1); free(s2); free(k);
    } else printf("bad-op\n");
  }
  fflush(stdout);
  iwkv_close(&kv);
  return 0;
}
