// C12 harness: the extensible file (IWFS_EXT) of the real code behind the line protocol of `drv c12`.
// One result line per op line; a case starts with `open ...` (which silently closes a file left open).
//   open <def|fibo|mul> <n> <dn> <maxoff> <initial_size> <trunc 0|1>  -> open <rc> <fsize>
//   close                          -> close <rc> <stat size of the file>
//   w <off> <len> <seed>           -> w <rc> <sp> <fsize>       (byte i of the data = (seed + i) % 251)
//   r <off> <len>                  -> r <rc> <sp> <fnv32> <hex of the first <=24 bytes>
//   cp <off> <siz> <noff>          -> cp <rc> <fsize>
//   tr <size> / es <size>          -> tr|es <rc> <fsize>
//   am <off> <maxlen> <opts>       -> am <rc>
//   rm <off> / sm <off>            -> rm|sm <rc>
//   pm <off>                       -> pm <rc> <len>
//   mw <slotoff> <rel> <len> <seed>-> mw <rc|range> <sp>        (store through the acquired mapping)
//   ra / sy                        -> ra|sy <rc>
//   st                             -> st <fsize> <stat size>
// Data listener (src/fs/iwdlsnr.h), dlsnr round:
//   lsn <0|1|2>                    -> lsn ok     mode of the listener attached by the following `open`s: 0 none,
//                                                1 passive recorder (handled = false), 2 handles resizes itself as the WAL
//                                                does (handled = true, re-entrant truncate_unsafe while "applying")
//   with a listener every result line ends with " |" followed by the calls the listener received during the op, in order:
//     W:<off>:<len>:<hex payload>  onwrite     C:<off>:<len>:<noff>  oncopy     S:<off>:<val>:<len>  onset
//     R:<osize>:<nsize>  onresize   r:<osize>:<nsize>  onresize received while the listener itself resizes (nested)
//     Y  onsynced    X  onclosing    O  onopen
//   mwr <slotoff> <rel> <len> <seed> -> mwr <rc|range> <sp>     store through the acquired mapping, reported by the caller
//                                                itself with onwrite(slotoff + rel, ..) as iwkv does
//   rx                             -> rx <fsize> <fnv32 of every page read through IWFS_EXT.read>
//   fx                             -> fx <stat size> <fnv32 of every page of the file read with a pread of our own>
#include "iwexfile.h"
#include "iwp.h"
#include "hx.h"
#include <sys/stat.h>

static int is_open;
static IW_RNUM rnum;
static const char *path;

static const char* rcname(iwrc rc) {
  static char buf[40];
  if (!rc) return "ok";
  iwrc_strip_errno(&rc);
  switch (rc) {
    case IW_ERROR_OUT_OF_BOUNDS: return "oob";
    case IW_ERROR_OVERFLOW: return "overflow";
    case IW_ERROR_NOT_ALIGNED: return "notaligned";
    case IW_ERROR_READONLY: return "readonly";
    case IW_ERROR_INVALID_STATE: return "invalidstate";
    case IW_ERROR_IO_ERRNO: return "io";
    case IW_ERROR_ERRNO: return "errno";
    case IWFS_ERROR_MMAP_OVERLAP: return "overlap";
    case IWFS_ERROR_NOT_MMAPED: return "notmapped";
    case IWFS_ERROR_RESIZE_POLICY_FAIL: return "policy";
    case IWFS_ERROR_MAXOFF: return "maxoff";
    default: snprintf(buf, sizeof(buf), "err%llu", (unsigned long long) rc); return buf;
  }
}

// ---- recording data listener
static int lsn_mode, lsn_applying;
static IWDLSNR lsnr;
static char *evbuf;
static size_t evlen, evcap, evcount;
#define EV_MAXBYTES (1u << 20)
#define EV_MAXCOUNT 200

static void ev_room(size_t n) {
  if (evlen + n + 1 > evcap) { evcap = (evlen + n + 1) * 2; evbuf = realloc(evbuf, evcap); }
}
static int ev_begin(void) {
  if (++evcount > EV_MAXCOUNT || evlen > EV_MAXBYTES) {
    if (evcount == EV_MAXCOUNT + 1) { ev_room(16); evlen += sprintf(evbuf + evlen, " overflow"); }
    return 0;
  }
  return 1;
}
static iwrc l_onopen(struct iwdlsnr *self, const char *p, int mode) {
  if (ev_begin()) { ev_room(8); evlen += sprintf(evbuf + evlen, " O"); }
  return 0;
}
static iwrc l_onclosing(struct iwdlsnr *self) {
  if (ev_begin()) { ev_room(8); evlen += sprintf(evbuf + evlen, " X"); }
  return 0;
}
static iwrc l_onsynced(struct iwdlsnr *self, int flags) {
  if (ev_begin()) { ev_room(8); evlen += sprintf(evbuf + evlen, " Y"); }
  return 0;
}
static iwrc l_onset(struct iwdlsnr *self, off_t off, uint8_t val, off_t len, int flags) {
  if (ev_begin()) { ev_room(80); evlen += sprintf(evbuf + evlen, " S:%lld:%u:%lld", (long long) off, (unsigned) val, (long long) len); }
  return 0;
}
static iwrc l_oncopy(struct iwdlsnr *self, off_t off, off_t len, off_t noff, int flags) {
  if (ev_begin()) { ev_room(100); evlen += sprintf(evbuf + evlen, " C:%lld:%lld:%lld", (long long) off, (long long) len, (long long) noff); }
  return 0;
}
static iwrc l_onwrite(struct iwdlsnr *self, off_t off, const void *buf, off_t len, int flags) {
  if (!ev_begin()) return 0;
  if (len < 0 || (size_t) len > EV_MAXBYTES) { ev_room(80); evlen += sprintf(evbuf + evlen, " W:%lld:%lld:toolong", (long long) off, (long long) len); return 0; }
  ev_room(80 + 2 * (size_t) len);
  evlen += sprintf(evbuf + evlen, " W:%lld:%lld:", (long long) off, (long long) len);
  if (!len) evbuf[evlen++] = '-';
  for (off_t i = 0; i < len; ++i) evlen += sprintf(evbuf + evlen, "%02x", ((const uint8_t*) buf)[i]);
  evbuf[evlen] = 0;
  return 0;
}
static IWFS_EXT f;
static iwrc l_onresize(struct iwdlsnr *self, off_t osize, off_t nsize, int flags, bool *handled) {
  if (lsn_applying || lsn_mode != 2) {
    if (ev_begin()) { ev_room(100); evlen += sprintf(evbuf + evlen, " %c:%lld:%lld", lsn_applying ? 'r' : 'R', (long long) osize, (long long) nsize); }
    *handled = false;
    return 0;
  }
  if (ev_begin()) { ev_room(100); evlen += sprintf(evbuf + evlen, " R:%lld:%lld", (long long) osize, (long long) nsize); }
  *handled = true;              // as iwal.c: the listener performs the resize itself, with its own events switched off
  lsn_applying = 1;
  iwrc rc = f.truncate_unsafe(&f, nsize);
  lsn_applying = 0;
  return rc;
}
static void ev_reset(void) { evlen = 0; evcount = 0; if (evbuf) evbuf[0] = 0; }
// end of a result line: the recorded listener calls (only when a listener is configured)
static void ev_flush(void) {
  if (lsn_mode) printf(" |%s", evlen ? evbuf : "");
  printf("\n");
  ev_reset();
}
static uint32_t fnv(const uint8_t *b, size_t n) {
  uint32_t h = 2166136261u;
  for (size_t i = 0; i < n; ++i) { h ^= b[i]; h *= 16777619u; }
  return h;
}

static long long statsize(void) {
  struct stat s;
  if (stat(path, &s)) return -1;
  return (long long) s.st_size;
}

static long long fsize_now(void) {
  IWFS_EXT_STATE s;
  if (f.state(&f, &s)) return -1;
  return (long long) s.fsize;
}

static void do_close(void) {
  if (is_open) { f.close(&f); is_open = 0; }
}

int main(int argc, char **argv) {
  setvbuf(stdout, 0, _IOLBF, 0);
  path = argv[1];
  char *line = malloc(HX_MAXLINE), *w[16];
  while (fgets(line, HX_MAXLINE, stdin)) {
    int n = hx_words(line, w, 16);
    if (!n) { printf("bad-op"); ev_flush(); continue; }
    const char *op = w[0];
    if (!strcmp(op, "lsn") && n == 2) {
      lsn_mode = atoi(w[1]);
      if (lsn_mode < 0 || lsn_mode > 2) lsn_mode = 0;
      printf("lsn ok\n");
      ev_reset();
      continue;
    }
    if (!strcmp(op, "open") && n == 7) {
      do_close();
      ev_reset();
      IWFS_EXT_OPTS o = { 0 };
      o.file.path = path;
      o.file.omode = IWFS_OWRITE | IWFS_OCREATE | (atoi(w[6]) ? IWFS_OTRUNC : 0);
      o.use_locks = true;
      if (lsn_mode) {
        lsnr.onopen = l_onopen; lsnr.onclosing = l_onclosing; lsnr.onset = l_onset; lsnr.oncopy = l_oncopy;
        lsnr.onwrite = l_onwrite; lsnr.onresize = l_onresize; lsnr.onsynced = l_onsynced;
        o.file.dlsnr = &lsnr;
      }
      o.initial_size = strtoll(w[5], 0, 10);
      o.maxoff = strtoull(w[4], 0, 10);
      if (!strcmp(w[1], "fibo")) o.rspolicy = iw_exfile_szpolicy_fibo;
      else if (!strcmp(w[1], "mul")) {
        rnum.n = atoi(w[2]); rnum.dn = atoi(w[3]);
        o.rspolicy = iw_exfile_szpolicy_mul; o.rspolicy_ctx = &rnum;
      }
      iwrc rc = iwfs_exfile_open(&f, &o);
      is_open = !rc;
      printf("open %s %lld", rcname(rc), is_open ? fsize_now() : 0LL); ev_flush();
      continue;
    }
    if (!is_open) { printf("closed"); ev_flush(); continue; }
    if (!strcmp(op, "close") && n == 1) {
      iwrc rc = f.close(&f);
      is_open = 0;
      printf("close %s %lld", rcname(rc), statsize()); ev_flush();
    } else if (!strcmp(op, "w") && n == 4) {
      long long off = strtoll(w[1], 0, 10); size_t len = strtoull(w[2], 0, 10); unsigned seed = atoi(w[3]);
      uint8_t *b = malloc(len + 1);
      for (size_t i = 0; i < len; ++i) b[i] = (uint8_t) ((seed + i) % 251);
      size_t sp = 777;
      iwrc rc = f.write(&f, off, b, len, &sp);
      printf("w %s %zu %lld", rcname(rc), sp, fsize_now()); ev_flush();
      free(b);
    } else if (!strcmp(op, "r") && n == 3) {
      long long off = strtoll(w[1], 0, 10); size_t len = strtoull(w[2], 0, 10);
      uint8_t *b = malloc(len + 1);
      memset(b, 0xEE, len + 1);
      size_t sp = 777;
      iwrc rc = f.read(&f, off, b, len, &sp);
      if (sp > len) { printf("r %s %zu sp-exceeds-request", rcname(rc), sp); ev_flush(); free(b); continue; }
      uint32_t h = 2166136261u;
      for (size_t i = 0; i < sp; ++i) { h ^= b[i]; h *= 16777619u; }
      printf("r %s %zu %08x ", rcname(rc), sp, h);
      hx_print(stdout, b, sp < 24 ? sp : 24);
      ev_flush();
      free(b);
    } else if (!strcmp(op, "cp") && n == 4) {
      iwrc rc = f.copy(&f, strtoll(w[1], 0, 10), strtoull(w[2], 0, 10), strtoll(w[3], 0, 10));
      printf("cp %s %lld", rcname(rc), fsize_now()); ev_flush();
    } else if (!strcmp(op, "tr") && n == 2) {
      iwrc rc = f.truncate(&f, strtoll(w[1], 0, 10));
      printf("tr %s %lld", rcname(rc), fsize_now()); ev_flush();
    } else if (!strcmp(op, "es") && n == 2) {
      iwrc rc = f.ensure_size(&f, strtoll(w[1], 0, 10));
      printf("es %s %lld", rcname(rc), fsize_now()); ev_flush();
    } else if (!strcmp(op, "am") && n == 4) {
      iwrc rc = f.add_mmap(&f, strtoll(w[1], 0, 10), strtoull(w[2], 0, 10), (iwfs_ext_mmap_opts_t) atoi(w[3]));
      printf("am %s", rcname(rc)); ev_flush();
    } else if (!strcmp(op, "rm") && n == 2) {
      printf("rm %s", rcname(f.remove_mmap(&f, strtoll(w[1], 0, 10)))); ev_flush();
    } else if (!strcmp(op, "sm") && n == 2) {
      printf("sm %s", rcname(f.sync_mmap(&f, strtoll(w[1], 0, 10), 0))); ev_flush();
    } else if (!strcmp(op, "pm") && n == 2) {
      uint8_t *mm; size_t sp = 777;
      iwrc rc = f.probe_mmap(&f, strtoll(w[1], 0, 10), &mm, &sp);
      printf("pm %s %zu", rcname(rc), sp); ev_flush();
    } else if (!strcmp(op, "mw") && n == 5) {
      uint8_t *mm; size_t sp = 777;
      size_t rel = strtoull(w[2], 0, 10), len = strtoull(w[3], 0, 10); unsigned seed = atoi(w[4]);
      iwrc rc = f.acquire_mmap(&f, strtoll(w[1], 0, 10), &mm, &sp);
      if (rc) {
        // _exfile_acquire_mmap returns IWFS_ERROR_NOT_MMAPED with the read lock still held (a lock leak that belongs
        // to C07); release it here so that the next exclusive operation of this single thread does not block
        iwrc rc2 = rc; iwrc_strip_errno(&rc2);
        if (rc2 == IWFS_ERROR_NOT_MMAPED) f.release_mmap(&f);
        printf("mw %s %zu", rcname(rc), sp); ev_flush(); continue;
      }
      if (rel + len <= sp) {
        for (size_t i = 0; i < len; ++i) mm[rel + i] = (uint8_t) ((seed + i) % 251);
        printf("mw ok %zu", sp);
      } else printf("mw range %zu", sp);
      f.release_mmap(&f);
      ev_flush();
    } else if (!strcmp(op, "mwr") && n == 5) {
      uint8_t *mm; size_t sp = 777;
      size_t rel = strtoull(w[2], 0, 10), len = strtoull(w[3], 0, 10); unsigned seed = atoi(w[4]);
      long long so = strtoll(w[1], 0, 10);
      iwrc rc = f.acquire_mmap(&f, so, &mm, &sp);
      if (rc) {
        iwrc rc2 = rc; iwrc_strip_errno(&rc2);
        if (rc2 == IWFS_ERROR_NOT_MMAPED) f.release_mmap(&f);
        printf("mwr %s %zu", rcname(rc), sp); ev_flush(); continue;
      }
      if (rel + len <= sp) {
        for (size_t i = 0; i < len; ++i) mm[rel + i] = (uint8_t) ((seed + i) % 251);
        if (lsn_mode) lsnr.onwrite(&lsnr, so + (off_t) rel, mm + rel, (off_t) len, 0);   // the caller's own report
        printf("mwr ok %zu", sp);
      } else printf("mwr range %zu", sp);
      f.release_mmap(&f);
      ev_flush();
    } else if (!strcmp(op, "rx") && n == 1) {
      long long fs = fsize_now();
      printf("rx %lld", fs);
      uint8_t *b = malloc(4096);
      for (long long o = 0, k = 0; o < fs && k < 400; o += 4096, ++k) {
        size_t sp = 0;
        size_t want = (size_t) (fs - o < 4096 ? fs - o : 4096);
        iwrc rc = f.read(&f, o, b, want, &sp);
        if (rc || sp != want) { printf(" err"); break; }
        printf(" %08x", fnv(b, sp));
      }
      free(b);
      ev_flush();
    } else if (!strcmp(op, "fx") && n == 1) {
      long long fs = statsize();
      printf("fx %lld", fs);
      FILE *fp = fopen(path, "rb");
      uint8_t *b = malloc(4096);
      for (long long o = 0, k = 0; fp && o < fs && k < 400; o += 4096, ++k) {
        size_t want = (size_t) (fs - o < 4096 ? fs - o : 4096);
        size_t got = fread(b, 1, want, fp);
        if (got != want) { printf(" err"); break; }
        printf(" %08x", fnv(b, got));
      }
      if (fp) fclose(fp);
      free(b);
      ev_flush();
    } else if (!strcmp(op, "ra") && n == 1) {
      printf("ra %s", rcname(f.remap_all(&f))); ev_flush();
    } else if (!strcmp(op, "sy") && n == 1) {
      printf("sy %s", rcname(f.sync(&f, 0))); ev_flush();
    } else if (!strcmp(op, "st") && n == 1) {
      printf("st %lld %lld", fsize_now(), statsize()); ev_flush();
    } else { printf("bad-op"); ev_flush(); }
  }
  do_close();
  return 0;
}
