// C12 harness: the extensible file (IWFS_EXT) of the real code behind the line protocol of `drv c12`.
// One result line per op line; a case starts with `open ...` (which silently closes a file left open).
//   open <def|fibo|mul> <n> <dn> <maxoff> <initial_size> <trunc 0|1>  -> open <rc> <fsize>
//   close                          -> close <rc> <stat size of the file>
//   w <off> <len> <seed>           -> w <rc> <sp> <fsize>       (byte i of the data = (seed + i) % 251)
//   r <off> <len>                  -> r <rc> <sp> <fnv32> <hex of the first <=24 bytes>
//   cp <off> <siz> <noff>          -> cp <rc> <fsize>
//   tr <size> / es <size>          -> tr|es <rc> <fsize>
//   am <off> <maxlen> <opts>       -> am <rc>
//   rm <off> / sm <off>            -> rm|sm <rc>
//   pm <off>                       -> pm <rc> <len>
//   mw <slotoff> <rel> <len> <seed>-> mw <rc|range> <sp>        (store through the acquired mapping)
//   ra / sy                        -> ra|sy <rc>
//   st                             -> st <fsize> <stat size>
#include "iwexfile.h"
#include "iwp.h"
#include "hx.h"
#include <sys/stat.h>

static IWFS_EXT f;
static int is_open;
static IW_RNUM rnum;
static const char *path;

static const char* rcname(iwrc rc) {
  static char buf[40];
  if (!rc) return "ok";
  iwrc_strip_errno(&rc);
  switch (rc) {
    case IW_ERROR_OUT_OF_BOUNDS: return "oob";
    case IW_ERROR_OVERFLOW: return "overflow";
    case IW_ERROR_NOT_ALIGNED: return "notaligned";
    case IW_ERROR_READONLY: return "readonly";
    case IW_ERROR_INVALID_STATE: return "invalidstate";
    case IW_ERROR_IO_ERRNO: return "io";
    case IW_ERROR_ERRNO: return "errno";
    case IWFS_ERROR_MMAP_OVERLAP: return "overlap";
    case IWFS_ERROR_NOT_MMAPED: return "notmapped";
    case IWFS_ERROR_RESIZE_POLICY_FAIL: return "policy";
    case IWFS_ERROR_MAXOFF: return "maxoff";
    default: snprintf(buf, sizeof(buf), "err%llu", (unsigned long long) rc); return buf;
  }
}

static long long statsize(void) {
  struct stat s;
  if (stat(path, &s)) return -1;
  return (long long) s.st_size;
}

static long long fsize_now(void) {
  IWFS_EXT_STATE s;
  if (f.state(&f, &s)) return -1;
  return (long long) s.fsize;
}

static void do_close(void) {
  if (is_open) { f.close(&f); is_open = 0; }
}

int main(int argc, char **argv) {
  setvbuf(stdout, 0, _IOLBF, 0);
  path = argv[1];
  char *line = malloc(HX_MAXLINE), *w[16];
  while (fgets(line, HX_MAXLINE, stdin)) {
    int n = hx_words(line, w, 16);
    if (!n) { printf("bad-op\n"); continue; }
    const char *op = w[0];
    if (!strcmp(op, "open") && n == 7) {
      do_close();
      IWFS_EXT_OPTS o = { 0 };
      o.file.path = path;
      o.file.omode = IWFS_OWRITE | IWFS_OCREATE | (atoi(w[6]) ? IWFS_OTRUNC : 0);
      o.use_locks = true;
      o.initial_size = strtoll(w[5], 0, 10);
      o.maxoff = strtoull(w[4], 0, 10);
      if (!strcmp(w[1], "fibo")) o.rspolicy = iw_exfile_szpolicy_fibo;
      else if (!strcmp(w[1], "mul")) {
        rnum.n = atoi(w[2]); rnum.dn = atoi(w[3]);
        o.rspolicy = iw_exfile_szpolicy_mul; o.rspolicy_ctx = &rnum;
      }
      iwrc rc = iwfs_exfile_open(&f, &o);
      is_open = !rc;
      printf("open %s %lld\n", rcname(rc), is_open ? fsize_now() : 0LL);
      continue;
    }
    if (!is_open) { printf("closed\n"); continue; }
    if (!strcmp(op, "close") && n == 1) {
      iwrc rc = f.close(&f);
      is_open = 0;
      printf("close %s %lld\n", rcname(rc), statsize());
    } else if (!strcmp(op, "w") && n == 4) {
      long long off = strtoll(w[1], 0, 10); size_t len = strtoull(w[2], 0, 10); unsigned seed = atoi(w[3]);
      uint8_t *b = malloc(len + 1);
      for (size_t i = 0; i < len; ++i) b[i] = (uint8_t) ((seed + i) % 251);
      size_t sp = 777;
      iwrc rc = f.write(&f, off, b, len, &sp);
      printf("w %s %zu %lld\n", rcname(rc), sp, fsize_now());
      free(b);
    } else if (!strcmp(op, "r") && n == 3) {
      long long off = strtoll(w[1], 0, 10); size_t len = strtoull(w[2], 0, 10);
      uint8_t *b = malloc(len + 1);
      memset(b, 0xEE, len + 1);
      size_t sp = 777;
      iwrc rc = f.read(&f, off, b, len, &sp);
      if (sp > len) { printf("r %s %zu sp-exceeds-request\n", rcname(rc), sp); free(b); continue; }
      uint32_t h = 2166136261u;
      for (size_t i = 0; i < sp; ++i) { h ^= b[i]; h *= 16777619u; }
      printf("r %s %zu %08x ", rcname(rc), sp, h);
      hx_print(stdout, b, sp < 24 ? sp : 24);
      printf("\n");
      free(b);
    } else if (!strcmp(op, "cp") && n == 4) {
      iwrc rc = f.copy(&f, strtoll(w[1], 0, 10), strtoull(w[2], 0, 10), strtoll(w[3], 0, 10));
      printf("cp %s %lld\n", rcname(rc), fsize_now());
    } else if (!strcmp(op, "tr") && n == 2) {
      iwrc rc = f.truncate(&f, strtoll(w[1], 0, 10));
      printf("tr %s %lld\n", rcname(rc), fsize_now());
    } else if (!strcmp(op, "es") && n == 2) {
      iwrc rc = f.ensure_size(&f, strtoll(w[1], 0, 10));
      printf("es %s %lld\n", rcname(rc), fsize_now());
    } else if (!strcmp(op, "am") && n == 4) {
      iwrc rc = f.add_mmap(&f, strtoll(w[1], 0, 10), strtoull(w[2], 0, 10), (iwfs_ext_mmap_opts_t) atoi(w[3]));
      printf("am %s\n", rcname(rc));
    } else if (!strcmp(op, "rm") && n == 2) {
      printf("rm %s\n", rcname(f.remove_mmap(&f, strtoll(w[1], 0, 10))));
    } else if (!strcmp(op, "sm") && n == 2) {
      printf("sm %s\n", rcname(f.sync_mmap(&f, strtoll(w[1], 0, 10), 0)));
    } else if (!strcmp(op, "pm") && n == 2) {
      uint8_t *mm; size_t sp = 777;
      iwrc rc = f.probe_mmap(&f, strtoll(w[1], 0, 10), &mm, &sp);
      printf("pm %s %zu\n", rcname(rc), sp);
    } else if (!strcmp(op, "mw") && n == 5) {
      uint8_t *mm; size_t sp = 777;
      size_t rel = strtoull(w[2], 0, 10), len = strtoull(w[3], 0, 10); unsigned seed = atoi(w[4]);
      iwrc rc = f.acquire_mmap(&f, strtoll(w[1], 0, 10), &mm, &sp);
      if (rc) {
        // _exfile_acquire_mmap returns IWFS_ERROR_NOT_MMAPED with the read lock still held (a lock leak that belongs
        // to C07); release it here so that the next exclusive operation of this single thread does not block
        iwrc rc2 = rc; iwrc_strip_errno(&rc2);
        if (rc2 == IWFS_ERROR_NOT_MMAPED) f.release_mmap(&f);
        printf("mw %s %zu\n", rcname(rc), sp); continue;
      }
      if (rel + len <= sp) {
        for (size_t i = 0; i < len; ++i) mm[rel + i] = (uint8_t) ((seed + i) % 251);
        printf("mw ok %zu\n", sp);
      } else printf("mw range %zu\n", sp);
      f.release_mmap(&f);
    } else if (!strcmp(op, "ra") && n == 1) {
      printf("ra %s\n", rcname(f.remap_all(&f)));
    } else if (!strcmp(op, "sy") && n == 1) {
      printf("sy %s\n", rcname(f.sync(&f, 0)));
    } else if (!strcmp(op, "st") && n == 1) {
      printf("st %lld %lld\n", fsize_now(), statsize());
    } else printf("bad-op\n");
  }
  do_close();
  return 0;
}
