"""Case-based differential runner: implementation harness vs Lean driver vs property oracle.

A *case* is a small self-contained list of op lines (the harness and the driver start every batch
from their initial state and cases in one batch must not depend on each other unless the check
says so).  For every case we have: the implementation's output lines, the model's output lines,
and an oracle (python callable over the implementation's lines) that states the property itself.
"""
import os, re
from . import common as C


class Case:
    __slots__ = ("kind", "ops", "oracle", "key", "impl", "model", "crash", "raw")

    def __init__(self, kind, ops, oracle=None, key=None):
        self.kind, self.ops, self.oracle = kind, ops, oracle
        self.key = key if key is not None else (kind, tuple(ops))
        self.impl = self.model = self.raw = None
        self.crash = None


def san_site(stderr):
    """Condense a sanitizer report into a short site signature."""
    if "HANG: no completion" in stderr and "Sanitizer" not in stderr:
        return "hang", "timeout"
    m = re.search(r"(AddressSanitizer|UndefinedBehaviorSanitizer|ThreadSanitizer|LeakSanitizer)[: ]+([^\n]*)", stderr)
    kind = (m.group(2).split(" on ")[0].strip() if m else "abort")[:80]
    m2 = re.search(r"runtime error: ([^\n]*)", stderr)
    if m2:
        kind = re.sub(r"\d+", "N", m2.group(1))[:80]
    frames = re.findall(r"#\d+ 0x[0-9a-f]+ in (\w+)", stderr)
    skip = ("__interceptor_", "__asan", "__sanitizer", "__ubsan", "main", "memcpy", "memmove", "memset", "strlen", "printf", "vsnprintf", "snprintf", "free", "malloc")
    fn = next((f for f in frames if not f.startswith(skip) and f not in skip), frames[0] if frames else "?")
    m3 = re.search(r"([\w./-]+\.[ch]):(\d+):\d+: runtime error", stderr)
    if m3 and not frames:
        fn = os.path.basename(m3.group(1)) + ":" + m3.group(2)
    return kind, fn


def run_batch(cmd, cases, timeout=300, env=None, per_case_reset=None, max_restarts=6, stall=25):
    """Run all ops of `cases` through one process; on a crash/timeout, attribute it to the case
    whose output is incomplete, mark that case, and continue with the following cases in a fresh
    process.  Sets case.<attr> lists via the returned dict {case_index: lines}."""
    out = {}
    crashes = {}
    start = 0
    guard = 0
    while start < len(cases) and guard < max_restarts:
        guard += 1
        lines = []
        for c in cases[start:]:
            if per_case_reset:
                lines.append(per_case_reset)
            lines.extend(c.ops)
        # a hang must not cost the whole budget: scale the limit with the amount of work
        tmo = timeout
        rc, o, e = C.run_lines_stall(cmd, lines, timeout=tmo, stall=stall, env=env)
        if rc == -999:
            e += "\nHANG: no completion (no output for %d s, or %.0f s in total): deadlock or livelock" % (stall, tmo)
        pos = 0
        done = start
        for i in range(start, len(cases)):
            need = len(cases[i].ops) + (1 if per_case_reset else 0)
            if pos + need <= len(o):
                got = o[pos:pos + need]
                out[i] = got[1:] if per_case_reset else got
                pos += need
                done = i + 1
            else:
                break
        if done >= len(cases):
            if rc != 0:
                # died after the last output (e.g. at close): attribute to the batch end
                crashes[len(cases) - 1] = (rc, e[-6000:])
            break
        crashes[done] = (rc, e[-6000:], o[pos:])
        out[done] = None
        start = done + 1
    return out, crashes


def differential(ctx, impl_cmd, model_cmd, cases, timeout=300, env=None, label="", canon=None):
    """Runs cases on both sides; returns list of (case, problem) where problem is one of
    ('crash', sig, stderr) / ('oracle', msg) / ('diverge', idx, impl_line, model_line)."""
    iout, icr = run_batch(impl_cmd, cases, timeout=timeout, env=env)
    mout, mcr = ({}, {})
    if model_cmd:
        mout, mcr = run_batch(model_cmd, cases, timeout=max(timeout, 1800), stall=900)      # the model may be slow on big inputs: no stall kill
        if mcr:
            i = sorted(mcr)[0]
            ctx.corr_broken.append("model driver failed on case %s: %s" % (cases[i].ops[:3], str(mcr[i][1])[-300:]))
    problems = []
    for i, c in enumerate(cases):
        c.impl = iout.get(i)
        c.model = mout.get(i)
        raw = c.raw = c.impl
        if canon and c.impl is not None:
            c.impl = [canon(x) for x in c.impl]
        ctx.case(c.key)
        ctx.hist(label + c.kind)
        if i in icr and c.impl is None:
            kind, fn = san_site(icr[i][1])
            c.crash = icr[i][1]
            problems.append((c, ("crash", dict(kind=kind, site=fn, rc=icr[i][0]), icr[i][1][-3000:])))
            continue
        if c.impl is None:
            continue
        if c.oracle:
            try:
                msg = c.oracle(raw)      # the oracle sees the implementation's lines as printed
            except Exception as ex:  # malformed output is an oracle failure too
                msg = "oracle could not read output %r: %r" % (c.impl[:3], ex)
            if msg:
                problems.append((c, ("oracle", msg)))
        if model_cmd and c.model is not None:
            ctx.cov["traces_validated_against_impl"] += 1
            d = C.first_diff(c.impl, c.model)
            if d:
                problems.append((c, ("diverge", d[0], d[1], d[2])))
    return problems
