"""Per-run context: obligations, correspondence results, findings, evidence, verdict."""
import json, os, re, sys, time, traceback
from . import common as C

TRUSTED_BASE = [
    "Lean 4.33.0 kernel (leanchecker re-check in thorough tier); axioms allowed: propext, Classical.choice, Quot.sound; no native_decide/bv_decide/sorry/own axioms (grep + #print axioms on every run)",
    "Lean compiler/runtime executing the model definitions in the driver `drv` (same definitions the theorems are about, nothing implemented_by)",
    "translator /verif/translate (C probe compiled against /repo headers + python) that regenerates IwModel/Gen/*.lean on every run",
    "correspondence machinery: generators, C harnesses, canonicalisers, diff (/verif/harness, /verif/checks)",
    "gcc 12 + ASan/UBSan, glibc, Linux page cache / mmap semantics",
    "C control flow is modelled by hand, not verified: the tie to /repo is the differential run reported under traces_validated_against_impl",
]


class Ctx:
    def __init__(self, pid, tier, seed, level="proof"):
        self.pid, self.tier, self.seed, self.level = pid, tier, seed, level
        self.t0 = time.time()
        self.obligations = []      # (name, ok, detail)
        self.violations = []       # (signature, replay_path, what, found_input)
        self.known_hit = {}        # finding id -> count
        self.cov = {"evaluations": 0, "distinct_nontrivial": 0, "rule": "", "samples": [],
                    "traces_validated_against_impl": 0, "histogram": {}}
        self.assumptions = []
        self.proof_broken = []     # names
        self.corr_broken = []      # descriptions
        self.checker_cmds = []
        self._distinct = set()
        self.findings = list(json.load(open(os.path.join(C.ROOT, "known_findings.json")))["findings"])
        self.replay_dir = os.path.join(C.ROOT, "replays", pid)
        self.notes = []
        self._vsig = {}

    # ---- logging helpers
    def log(self, *a):
        print("[%s %6.1fs]" % (self.pid, time.time() - self.t0), *a, flush=True)

    def hist(self, key, n=1):
        self.cov["histogram"][key] = self.cov["histogram"].get(key, 0) + n

    def case(self, key, nontrivial=True, n=1):
        """Count one evaluated case; `key` identifies it for the distinct count."""
        self.cov["evaluations"] += n
        if nontrivial and key not in self._distinct:
            self._distinct.add(key)
            self.cov["distinct_nontrivial"] += 1

    def sample(self, obj, cap=6):
        if len(self.cov["samples"]) < cap:
            self.cov["samples"].append(obj)

    # ---- proof stage
    def translate(self):
        from translate import gen
        try:
            changed = gen.regenerate(self)
            self.obligation("translator: Gen/*.lean regenerated from /repo working tree", True,
                            "changed: %s" % (", ".join(changed) or "none"))
            return True
        except Exception as ex:
            self.obligation("translator: Gen/*.lean regenerated from /repo working tree", False, str(ex)[:2000])
            self.proof_broken.append("translator: " + str(ex)[:300])
            return False

    def fingerprint(self, modelled):
        """informational: which modelled C functions changed in text since the model was last reviewed"""
        try:
            from translate import funchash
            cur, changed, new = funchash.compare(self.pid, modelled)
            self.cov["modelled_functions"] = len(cur)
            self.cov["modelled_functions_changed_since_review"] = changed
            if new:
                self.cov["modelled_functions_without_reference"] = new
            miss = [k for k, h in cur.items() if h == "missing"]
            if miss:
                self.notes.append("modelled functions not found in the source (renamed or removed?): " + ", ".join(miss))
        except Exception as ex:
            self.notes.append("fingerprint step failed: %s" % ex)

    def obligation(self, name, ok, detail=""):
        self.obligations.append((name, bool(ok), detail))

    def prove(self, module, theorems, build_driver=True):
        """lake build the property module (+driver), forbid sorry & co, audit axioms."""
        self.checker_cmds.append("cd lean && lake build %s && lake env lean <#print axioms of %d theorems>" % (module, len(theorems)))
        hits = C.grep_forbidden()
        self.obligation("no sorry/admit/axiom/native_decide/bv_decide/implemented_by/unsafe in lean sources", not hits, "; ".join(hits[:10]))
        if hits:
            self.proof_broken.append("forbidden construct: " + "; ".join(hits[:5]))
        rc, o, e = C.lake(["build", module])
        txt = (o + e).decode(errors="replace")
        ok = rc == 0
        if not ok:
            errs = re.findall(r"error: ([^\n]*\n(?:[^\n]*\n){0,6})", txt)
            detail = "\n".join(errs[:4]) or txt[-3000:]
            self.obligation("lake build " + module, False, detail[:3000])
            self.proof_broken.append("lake build %s failed: %s" % (module, detail[:600]))
            for t in theorems:
                self.obligation("theorem " + t, False, "module does not build")
        else:
            self.obligation("lake build " + module, True)
            rc2, res, atxt = C.audit_axioms(module, theorems)
            for t in theorems:
                ax = res.get(t)
                if ax is None:
                    self.obligation("theorem " + t, False, "not found by #print axioms")
                    self.proof_broken.append("theorem %s missing" % t)
                else:
                    bad = [a for a in ax if a not in C.ALLOWED_AXIOMS]
                    self.obligation("theorem " + t, not bad, "axioms: " + (", ".join(ax) or "none"))
                    if bad:
                        self.proof_broken.append("theorem %s uses axioms %s" % (t, bad))
            if self.tier == "thorough":
                with C.lake_lock():
                    rc3, o3, e3 = C.sh(["lake", "env", "leanchecker", module], timeout=1800, cwd=C.LEAN)
                self.checker_cmds.append("lake env leanchecker " + module)
                self.obligation("leanchecker " + module, rc3 == 0, (o3 + e3).decode(errors="replace")[-500:])
                if rc3 != 0:
                    self.proof_broken.append("leanchecker rejects " + module)
        drv_ok = True
        if build_driver:
            rc, o, e = C.lake(["build", "drv"])
            drv_ok = rc == 0
            if not drv_ok:
                self.obligation("lake build drv (executable model)", False, (o + e).decode(errors="replace")[-2000:])
                self.corr_broken.append("model driver does not build")
            else:
                self.obligation("lake build drv (executable model)", True)
        return ok, drv_ok

    # ---- findings
    def _match(self, sig):
        for f in self.findings:
            if f.get("property") != self.pid or f.get("status") != "open":
                continue
            m = f.get("match", {})
            if m and all(re.fullmatch(str(v), str(sig.get(k, ""))) for k, v in m.items()):
                return f
        return None

    def fail(self, sig, replay, what):
        """A concrete input on which the property itself fails on the implementation (or model)."""
        f = self._match(sig)
        if f:
            self.known_hit[f["id"]] = self.known_hit.get(f["id"], 0) + 1
            if self.known_hit[f["id"]] == 1:
                print("KNOWN-FINDING: property=%s %s: %s" % (self.pid, f["id"], f["what"]), flush=True)
            return False
        key = json.dumps(sig, sort_keys=True, default=str)
        self._vsig[key] = self._vsig.get(key, 0) + 1
        if self._vsig[key] > 1 or len(self._vsig) > 8:
            return True      # same kind of failure already reported with a replay
        path = self._write_replay(dict(signature=sig, what=what, replay=replay))
        self.violations.append((sig, path, what, True))
        print("VIOLATION property=%s replay=%s" % (self.pid, path), flush=True)
        self.log("violation:", what[:300])
        return True

    def _write_replay(self, obj):
        os.makedirs(self.replay_dir, exist_ok=True)
        p = os.path.join(self.replay_dir, "%s-%d-%d.json" % (self.tier, self.seed, len(self.violations) + 1 + int(time.time()) % 100000 * 10))
        obj = dict(obj, property=self.pid, seed=self.seed, tier=self.tier)
        json.dump(obj, open(p, "w"), indent=1, default=str)
        return p

    # ---- verdict
    def finish(self):
        n_found = len(self.violations)
        if (self.proof_broken or self.corr_broken) and n_found == 0:
            path = self._write_replay(dict(
                what="proof obligation or correspondence no longer checks; search found no input on which the property fails",
                broken_theorems_or_obligations=self.proof_broken, broken_correspondence=self.corr_broken,
                obligations=[dict(name=n, ok=k, detail=d) for n, k, d in self.obligations if not k]))
            self.violations.append(({}, path, "broken", False))
            print("VIOLATION property=%s replay=%s no-failing-input-found" % (self.pid, path), flush=True)
        nob = len(self.obligations)
        ndis = sum(1 for _, k, _ in self.obligations if k)
        cov = dict(self.cov)
        cov.update(obligations=nob, discharged=ndis,
                   checker_cmd="; ".join(dict.fromkeys(self.checker_cmds)) or "n/a",
                   trusted_base=TRUSTED_BASE,
                   obligation_list=[dict(name=n, ok=k, detail=d[:300]) for n, k, d in self.obligations],
                   known_findings_reproduced=self.known_hit, notes=self.notes)
        if cov["distinct_nontrivial"] < 2 or cov["evaluations"] < 1:
            cov["rule"] += " [WARNING: fewer than 2 distinct cases were run]"
        ev = dict(property_id=self.pid, tier=self.tier, seed=self.seed, level=self.level, coverage=cov,
                  assumptions=self.assumptions, wall_s=round(time.time() - self.t0, 2), violations=len(self.violations))
        os.makedirs(os.path.join(C.ROOT, "evidence"), exist_ok=True)
        json.dump(ev, open(os.path.join(C.ROOT, "evidence", self.pid + ".json"), "w"), indent=1, default=str)
        self.log("obligations %d/%d, evaluations %d (distinct non-trivial %d), traces validated %d, violations %d, known findings %s" % (
            ndis, nob, cov["evaluations"], cov["distinct_nontrivial"], cov["traces_validated_against_impl"], len(self.violations), dict(self.known_hit)))
        return 1 if self.violations else 0


def main(argv):
    import argparse, importlib
    ap = argparse.ArgumentParser()
    ap.add_argument("pid")
    ap.add_argument("--tier", default=os.environ.get("VERIF_TIER", "quick"))
    ap.add_argument("--replay")
    a = ap.parse_args(argv)
    seed = int(os.environ.get("VERIF_SEED", "1"))
    sys.path.insert(0, C.ROOT)
    mod = importlib.import_module("checks." + a.pid.lower())
    ctx = Ctx(a.pid, a.tier, seed, getattr(mod, "LEVEL", "proof"))
    try:
        if getattr(mod, "MODELLED_FUNCS", None):
            ctx.fingerprint(mod.MODELLED_FUNCS)
        if a.replay:
            mod.replay(ctx, json.load(open(a.replay)))
        else:
            mod.run(ctx)
    except C.BuildError as ex:
        # the tree does not build with our harness: the correspondence is broken
        ctx.log("build error:", str(ex)[:3000])
        ctx.corr_broken.append("build: " + str(ex)[:1500])
    except Exception:
        tb = traceback.format_exc()
        ctx.log("internal error:\n" + tb)
        ctx.corr_broken.append("internal error in check: " + tb[-1500:])
    return ctx.finish()
