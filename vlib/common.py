"""Shared machinery for the /verif checks (see DESIGN.md section 2).

Everything here is offline, derives paths from __file__, and keeps scratch
output outside /repo and /verif.
"""
import atexit, fcntl, hashlib, json, os, random, re, shutil, subprocess, sys, time

ROOT = os.path.dirname(os.path.dirname(os.path.abspath(__file__)))
REPO = os.environ.get("VERIF_REPO", "/repo")
LEAN = os.path.join(ROOT, "lean")
CACHE = os.environ.get("VERIF_CACHE", "/var/tmp/iwverif-cache")
NCPU = os.cpu_count() or 4

MODULES = ["log", "utils", "platform", "fs", "rdb", "re", "json", "kv"]
DEFINES = ("-DIW_64 -DIW_PTHREADS -DIW_HAVE_PTHREAD_CONDATTR_SETCLOCK -DIW_HAVE_CLOCK_MONOTONIC "
           "-DIW_HAVE_QSORT_R -D_XOPEN_SOURCE=700 -D_DEFAULT_SOURCE -D_LARGEFILE_SOURCE "
           "-D_FILE_OFFSET_BITS=64 -DIW_TESTS=1 -DIW_STATIC -DNDEBUG -DIOWOW_VERIF=1").split()
VARIANTS = {
    "asan": ["-O1", "-g", "-fno-omit-frame-pointer", "-fsanitize=address,undefined",
             "-fno-sanitize-recover=undefined"],
    "tsan": ["-O1", "-g", "-fno-omit-frame-pointer", "-fsanitize=thread"],
    "plain": ["-O1", "-g"],
}
ASAN_ENV = {"ASAN_OPTIONS": "detect_leaks=0:hard_rss_limit_mb=3000:abort_on_error=0:allocator_may_return_null=1",
            "UBSAN_OPTIONS": "print_stacktrace=1:halt_on_error=1",
            "TSAN_OPTIONS": "halt_on_error=0:second_deadlock_stack=1"}

_scratch = None


def scratch():
    """Per-process scratch directory outside /repo and /verif, removed at exit."""
    global _scratch
    if _scratch is None:
        base = os.environ.get("VERIF_SCRATCH", "/var/tmp")
        _scratch = os.path.join(base, "iwverif.%d" % os.getpid())
        os.makedirs(_scratch, exist_ok=True)
        atexit.register(lambda: shutil.rmtree(_scratch, ignore_errors=True))
    return _scratch


def sh(cmd, timeout=600, env=None, cwd=None, input=None):
    e = dict(os.environ)
    e.update(ASAN_ENV)
    if env:
        e.update(env)
    try:
        p = subprocess.run(cmd, stdout=subprocess.PIPE, stderr=subprocess.PIPE, timeout=timeout,
                           env=e, cwd=cwd, input=input)
        return p.returncode, p.stdout, p.stderr
    except subprocess.TimeoutExpired as ex:
        return -999, ex.stdout or b"", (ex.stderr or b"") + b"\nTIMEOUT"


class Lock:
    def __init__(self, name):
        os.makedirs(CACHE, exist_ok=True)
        self.path = os.path.join(CACHE, name + ".lock")

    def __enter__(self):
        self.f = open(self.path, "w")
        fcntl.flock(self.f, fcntl.LOCK_EX)
        return self

    def __exit__(self, *a):
        fcntl.flock(self.f, fcntl.LOCK_UN)
        self.f.close()


# --------------------------------------------------------------------------
# Implementation build (from /repo's current working tree)

def repo_sources():
    out = [os.path.join(REPO, "src", "iowow.c")]
    for m in MODULES:
        d = os.path.join(REPO, "src", m)
        out += sorted(os.path.join(d, f) for f in os.listdir(d) if f.endswith(".c"))
    return out


def tree_hash():
    h = hashlib.sha256()
    for dp, dn, fn in sorted(os.walk(os.path.join(REPO, "src"))):
        dn.sort()
        if "/tests" in dp or "/benchmark" in dp:
            continue
        for f in sorted(fn):
            if f.endswith((".c", ".h")):
                p = os.path.join(dp, f)
                h.update(p.encode())
                with open(p, "rb") as fh:
                    h.update(fh.read())
    h.update(open(os.path.join(REPO, "Changelog"), "rb").readline())
    h.update(" ".join(DEFINES).encode())
    return h.hexdigest()[:20]


def include_flags(gen_dir):
    fl = ["-I" + os.path.join(REPO, "src"), "-I" + gen_dir]
    for m in MODULES:
        fl.append("-I" + os.path.join(REPO, "src", m))
    return fl


def _gen_cfg(gen_dir):
    os.makedirs(gen_dir, exist_ok=True)
    t = open(os.path.join(REPO, "src", "tmpl", "iwcfg.h")).read()
    m = re.match(r"iowow \((\d+)\.(\d+)\.(\d+)\)", open(os.path.join(REPO, "Changelog")).readline())
    a, b, c = m.groups() if m else ("1", "4", "19")
    t = (t.replace("@iowow_VERSION@", "%s.%s.%s" % (a, b, c)).replace("@iowow_VERSION_MAJOR@", a)
         .replace("@iowow_VERSION_MINOR@", b).replace("@iowow_VERSION_PATCH@", c))
    open(os.path.join(gen_dir, "iwcfg.h"), "w").write(t)


class Impl:
    """A sanitizer build of every source of /repo's working tree: objects + static archive."""

    def __init__(self, variant, dir):
        self.variant, self.dir = variant, dir
        self.gen = os.path.join(dir, "generated")
        self.lib = os.path.join(dir, "libiowow.a")
        self.cflags = ["-std=gnu11", "-fsigned-char", "-w"] + VARIANTS[variant] + DEFINES + include_flags(self.gen)

    def obj(self, src):
        rel = os.path.relpath(src, os.path.join(REPO, "src")).replace("/", "_")
        return os.path.join(self.dir, rel[:-2] + ".o")

    def link_objs(self, exclude=()):
        """Objects of the library, minus those whose source basename is in `exclude`
        (for harnesses that #include that .c file to reach static functions)."""
        return [self.obj(s) for s in repo_sources() if os.path.basename(s) not in exclude]


def build_impl(variant="asan"):
    """Compile /repo's current tree. Result is cached by a hash of the source contents, so an
    edited tree is always rebuilt and an unchanged one is not compiled twenty times."""
    th = tree_hash()
    d = os.path.join(CACHE, "impl-%s-%s" % (th, variant))
    impl = Impl(variant, d)
    with Lock("impl-" + variant):
        if os.path.exists(os.path.join(d, "OK")):
            os.utime(os.path.join(d, "OK"))
            return impl
        shutil.rmtree(d, ignore_errors=True)
        _gen_cfg(impl.gen)
        srcs = repo_sources()
        procs = []
        errs = []
        for s in srcs:
            while len(procs) >= NCPU:
                procs = [p for p in procs if p[1].poll() is None or errs.extend(_chk(p)) or False]
                time.sleep(0.01)
            procs.append((s, subprocess.Popen(["gcc"] + impl.cflags + ["-c", s, "-o", impl.obj(s)],
                                              stdout=subprocess.PIPE, stderr=subprocess.STDOUT)))
        for p in procs:
            p[1].wait()
            errs.extend(_chk(p))
        if errs:
            raise BuildError("implementation does not compile:\n" + "\n".join(errs)[:4000])
        open(os.path.join(d, "OK"), "w").write(th)
        _prune_cache()
    return impl


def _chk(p):
    if p[1].returncode not in (0, None):
        return ["%s: %s" % (p[0], p[1].stdout.read().decode(errors="replace")[:1500])]
    return []


def _prune_cache(keep=int(os.environ.get("VERIF_CACHE_KEEP", "40"))):
    ds = [os.path.join(CACHE, x) for x in os.listdir(CACHE) if x.startswith("impl-") and not x.endswith(".lock")]
    ds = [d for d in ds if os.path.isdir(d)]
    ds.sort(key=lambda d: os.path.getmtime(os.path.join(d, "OK")) if os.path.exists(os.path.join(d, "OK")) else 0)
    for d in ds[:-keep]:
        shutil.rmtree(d, ignore_errors=True)


class BuildError(Exception):
    pass


def build_harness(impl, name, sources, exclude=(), wraps=(), extra=(), cxx=False):
    """Link harness sources (paths relative to /verif/harness) against the implementation objects."""
    out = os.path.join(scratch(), name + "-" + impl.variant)
    srcs = [s if os.path.isabs(s) else os.path.join(ROOT, "harness", s) for s in sources]
    cmd = ["gcc"] + impl.cflags + ["-DVERIF_REPO=\"%s\"" % REPO, "-I" + os.path.join(ROOT, "harness")] + list(extra)
    cmd += srcs + impl.link_objs(exclude)
    if wraps:
        cmd.append("-Wl," + ",".join("--wrap=" + w for w in wraps))
    cmd += ["-o", out, "-lm", "-lpthread"]
    rc, o, e = sh(cmd, timeout=300)
    if rc != 0:
        raise BuildError("harness %s does not build:\n%s" % (name, (o + e).decode(errors="replace")[:4000]))
    return out


# --------------------------------------------------------------------------
# Lean side

def lake_lock():
    """one lake process at a time per lean project directory (worktrees have their own)"""
    return Lock("lake-" + hashlib.sha256(LEAN.encode()).hexdigest()[:10])


def lake(args, timeout=3000):
    with lake_lock():
        return sh(["lake"] + args, timeout=timeout, cwd=LEAN)


def write_if_changed(path, text):
    try:
        if open(path).read() == text:
            return False
    except FileNotFoundError:
        pass
    os.makedirs(os.path.dirname(path), exist_ok=True)
    tmp = path + ".tmp%d" % os.getpid()
    open(tmp, "w").write(text)
    os.replace(tmp, path)
    return True


FORBIDDEN = re.compile(r"\bsorry\b|\badmit\b|^\s*axiom\s|native_decide|bv_decide|implemented_by|\bunsafe\s|maxHeartbeats\s+0\b|@\[extern",
                       re.M)


def strip_lean_comments(t):
    t = re.sub(r"/-.*?-/", lambda m: "\n" * m.group(0).count("\n"), t, flags=re.S)
    t = re.sub(r"--.*", "", t)
    return t


def grep_forbidden():
    hits = []
    for dp, dn, fn in os.walk(os.path.join(LEAN, "IwModel")):
        for f in fn:
            if f.endswith(".lean"):
                p = os.path.join(dp, f)
                t = strip_lean_comments(open(p).read())
                for m in FORBIDDEN.finditer(t):
                    hits.append("%s:%d: %s" % (os.path.relpath(p, LEAN), t[:m.start()].count("\n") + 1, m.group(0).strip()))
    for f in ("Driver.lean",):
        p = os.path.join(LEAN, f)
        if os.path.exists(p):
            t = strip_lean_comments(open(p).read())
            for m in FORBIDDEN.finditer(t):
                hits.append("%s:%d: %s" % (f, t[:m.start()].count("\n") + 1, m.group(0).strip()))
    return hits


ALLOWED_AXIOMS = {"propext", "Classical.choice", "Quot.sound"}


def audit_axioms(module, theorems):
    """Run `#print axioms` on every named theorem; returns {thm: [axioms]} or raises."""
    src = "import %s\n" % module + "".join("#print axioms %s\n" % t for t in theorems)
    p = os.path.join(scratch(), "Audit_%s.lean" % module.replace(".", "_"))
    open(p, "w").write(src)
    with lake_lock():
        rc, o, e = sh(["lake", "env", "lean", p], timeout=600, cwd=LEAN)
    txt = (o + e).decode(errors="replace")
    res = {}
    # "'Thm' depends on axioms: [a, b]" or "'Thm' does not depend on any axioms"
    for m in re.finditer(r"'([^']+)' depends on axioms:\s*\[([^\]]*)\]", txt, re.S):
        res[m.group(1)] = [a.strip() for a in m.group(2).replace("\n", " ").split(",") if a.strip()]
    for m in re.finditer(r"'([^']+)' does not depend on any axioms", txt):
        res[m.group(1)] = []
    return rc, res, txt


def drv_path():
    return os.path.join(LEAN, ".lake", "build", "bin", "drv")


# --------------------------------------------------------------------------
# Random source, shrinking

class Rng(random.Random):
    """All random choices of a run derive from VERIF_SEED and a stream label."""

    def __init__(self, seed, label=""):
        super().__init__(int(hashlib.sha256(("%d/%s" % (seed, label)).encode()).hexdigest()[:16], 16))


def ddmin(items, fails, budget=200):
    """Delta debugging over a list; `fails(sub)` is True when the failure persists."""
    n = 2
    calls = 0
    while len(items) >= 2 and calls < budget:
        chunk = max(1, len(items) // n)
        reduced = False
        for i in range(0, len(items), chunk):
            cand = items[:i] + items[i + chunk:]
            calls += 1
            if cand and fails(cand):
                items = cand
                n = max(n - 1, 2)
                reduced = True
                break
            if calls >= budget:
                break
        if not reduced:
            if chunk == 1:
                break
            n = min(len(items), n * 2)
    return items


# --------------------------------------------------------------------------
# Line-protocol differential runner

def run_lines(cmd, lines, timeout=120, env=None):
    """Feed `lines` on stdin, return (rc, stdout lines, stderr text)."""
    data = ("\n".join(lines) + "\n").encode()
    rc, o, e = sh(cmd, timeout=timeout, env=env, input=data)
    txt = o.decode(errors="replace")
    ls = txt.split("\n")
    ls.pop()  # text after the last newline is an incomplete line (or empty)
    return rc, ls, e.decode(errors="replace")


def run_lines_stall(cmd, lines, timeout=300, stall=25, env=None):
    """Like run_lines, but also gives up when the child produces no output for `stall` seconds
    (a hang then costs seconds instead of the whole budget). rc = -999 on timeout/stall."""
    import threading
    e = dict(os.environ)
    e.update(ASAN_ENV)
    if env:
        e.update(env)
    data = ("\n".join(lines) + "\n").encode()
    p = subprocess.Popen(cmd, stdin=subprocess.PIPE, stdout=subprocess.PIPE, stderr=subprocess.PIPE, env=e)
    out, err, last = [], [], [time.time()]

    def rd_out():
        for chunk in iter(lambda: p.stdout.read1(65536), b""):
            out.append(chunk)
            last[0] = time.time()

    def rd_err():
        for chunk in iter(lambda: p.stderr.read1(65536), b""):
            err.append(chunk)

    def wr():
        try:
            p.stdin.write(data)
            p.stdin.close()
        except Exception:
            pass
    ts = [threading.Thread(target=f, daemon=True) for f in (rd_out, rd_err, wr)]
    for t in ts:
        t.start()
    t0 = time.time()
    killed = False
    while p.poll() is None:
        time.sleep(0.05)
        now = time.time()
        if now - t0 > timeout or now - last[0] > stall:
            p.kill()
            killed = True
            break
    p.wait()
    for t in ts[:2]:
        t.join(timeout=5)
    txt = b"".join(out).decode(errors="replace")
    ls = txt.split("\n")
    ls.pop()
    etxt = b"".join(err).decode(errors="replace")
    if killed:
        etxt += "\nTIMEOUT"
        return -999, ls, etxt
    return p.returncode, ls, etxt


def first_diff(a, b):
    for i in range(max(len(a), len(b))):
        x = a[i] if i < len(a) else "<missing>"
        y = b[i] if i < len(b) else "<missing>"
        if x != y:
            return i, x, y
    return None
